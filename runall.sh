#!/bin/bash
# Runs every check of a tier in sequence; prints one status line per property.
# usage: runall.sh [quick|thorough] [ids...]
tier=${1:-quick}; shift
ids=${@:-C01 C02 C03 C04 C05 C06 C07 C08 C09 C10 C11 C12 C13 C14 C15 C16 C17 C18}
cd "$(dirname "$0")"
for p in $ids; do
  s=$(date +%s.%N)
  out=$(./check $p $tier 2>&1); rc=$?
  e=$(date +%s.%N)
  printf "%s rc=%d %.1fs %s\n" $p $rc $(echo "$e - $s" | bc) "$(echo "$out" | grep -E '^(VIOLATION|KNOWN-FINDING|INCONCLUSIVE)' | head -3 | tr '\n' ' ')"
done
