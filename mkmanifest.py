#!/usr/bin/env python3
"""Generates /verif/MANIFEST.json (one source of truth for the per-property texts)."""
import json
import os

VERIF = os.path.dirname(os.path.abspath(__file__))

P = {
 "C01": dict(
  technique="property-based testing (rapid): grammar-based + mutation-based string generation against a reference recogniser; coverage-guided native fuzzing in the thorough tier",
  text="Generated-input search against an independent membership oracle. 250k strings per quick run (30% valid by construction, 50% 1-3 structured edits of a valid vector with 18 mutation operators covering every grammar position, 10% cross-version token soup, 10% raw bytes), each offered to all four parsers; the oracle is a split-based recogniser written from the grammar in the property, cross-checked against anchored regular expressions. Plus, every run, the COMPLETE one-edit neighbourhood (every byte deleted / replaced / inserted from a 61-byte alphabet, every truncation, every element deleted / duplicated anywhere / moved anywhere / swapped, empty elements, 25 header shapes) of 17 representative vectors covering every layout (about 173,000 strings) and every order-preserving subsequence of the v2 metric list / every subset of the v3 and v4 base metrics (about 43,000 strings). Also asserts the result shape (object xor error) and no panic. Thorough: 16 shards x 1.5M strings plus 150 s of coverage-guided fuzzing with the oracle inside the target. Sampling of an infinite language: no completeness claim. Additionally, exhaustively: every representative vector with, at every element, the value replaced by every pooled value and the abbreviation by every pooled abbreviation (about 2,700 tokens: real tokens of all versions, case variants, NUL/padding/length-mod-256 disguises, characters whose code point truncates to a legal byte, value lists joined by separators, M-prefixed abbreviations). A second process runs the same check built for GOARCH=386 (32-bit int/uint) on a sampled workload with another seed.",
  note="Trusted base: spec/grammar.go (reference recognisers). rapid v1.3.0 for generation/shrinking.", ref="4 C01"),
 "C02": dict(
  technique="stateful property-based testing (rapid operation histories) with a round-trip oracle; exhaustive pair grids; complete v2 enumeration in the thorough tier",
  text="Histories of up to 64 Set calls (legal, illegal, unknown metric) from the zero value or a parsed vector, round trip checked after every step: Vector() must be well-formed by the reference grammar (so a Vector/Parse pair wrong in the same way is still caught), ParseVector must accept it, result == object and equal on every Get. Plus every ordered pair of (metric,value) settings on 5 backgrounds for each version (exhaustive), and all 139,968,000 v2.0 objects in the thorough tier. Exhaustively every base x temporal/threat combination of every version built by Set and round-tripped (thorough: x every security-requirement combination, 16.6M objects per v3.x version, 26.9M for v4.0) - this contains the all-zero object and any single object a table could special-case. A second process runs the same check built for GOARCH=386 (32-bit int/uint) on a sampled workload with another seed.",
  note="Trusted base: spec/grammar.go. History length bounded by 64 (state is <= 9 bytes; any state is one Set per metric away).", ref="4 C02"),
 "C03": dict(
  technique="complete enumeration of the effective class space against an exact (math/big.Rat) executable specification; rapid lifts into the raw space",
  text="All 16,588,800 effective classes of v3.0 and of v3.1 (2,592 base x CR/IR/AR x E/RL/RC) are evaluated on every run - twice: with the effective values in the base metrics, and with every Modified metric holding the effective value over different base values, so that every mod() call is exercised in both directions - and BaseScore, TemporalScore, EnvironmentalScore compared exactly, Impact/Exploitability within 1e-9, against the FIRST equations evaluated in rational arithmetic (each version with its own ModifiedImpact formula). Every base combination x every pair of Modified metric values (exhaustive, 1.4 million cases per version), a Modified-metric grid and 50k random raw assignments lift the result to the raw space. exhaustive=true for the class part. Every score is asked for twice on the same object (a memo with a lossy encoding shows on the second call). Corner space: every subset of the Modified metrics explicit at an extreme x every spelling of CR/IR/AR x {X,first,last} of E/RL/RC x 2 base backgrounds (1.77M cases per version). A second process runs the same check built for GOARCH=386 (32-bit int/uint) on a sampled workload with another seed.",
  note="Trusted base: spec/score3.go (weights and equations transcribed from the specifications; self-tests show real-number Roundup == Appendix A algorithm on the whole domain).", ref="4 C03"),
 "C04": dict(
  technique="complete enumeration of the 15,116,544 effective classes against an exact integer-arithmetic executable specification; rapid lifts with corner profiles",
  text="Every effective class (all 270 MacroVectors reached) is scored on every run, twice (effective values in the base metrics; in the Modified metrics over different base values), and compared exactly with the section 8.2 algorithm written over metric letters (exact fraction of tenths, rounded half-up). Every base combination x every single Modified metric value (exhaustive, 3.9 million cases) and 50k random raw objects with Modified overrides, explicit X, supplemental metrics and the two all-None corner profiles lift the result. Found two genuine defects (F1, F2), both repaired by fix: commits. Score is asked for twice on each object in the first walk. Corner space: every subset of the 11 Modified metrics explicit at their most / least severe value x every spelling (incl. X) of E/CR/IR/AR x 2 base backgrounds (2.1M cases). A second process runs the same check built for GOARCH=386 (32-bit int/uint) on a sampled workload with another seed.",
  note="Trusted base: spec/score4.go and the frozen 270-entry lookup table spec/v4lookup.go (SHA-256 pinned; depths recomputed by enumeration; 866,384 exact ties as the property states; oracle monotone on all 149,905,728 neighbour pairs).", ref="4 C04"),
 "C05": dict(
  technique="complete enumeration of all 139,968,000 v2.0 assignments against an exact (math/big.Rat) executable specification with tie sets",
  text="Every v2.0 assignment is scored on every run; BaseScore/TemporalScore/EnvironmentalScore must be a member of the oracle's set of conforming values (two values where an exact half-way tie occurs anywhere in the nested roundings, as the statement allows), Impact/Exploitability within 1e-9. exhaustive=true. EnvironmentalScore is asked for twice in a row on every assignment and must answer the same. A second process runs the same check built for GOARCH=386 (32-bit int/uint) on a sampled workload with another seed.",
  note="Trusted base: spec/score2.go (guide section 3.2 equations).", ref="4 C05"),
 "C06": dict(
  technique="property-based testing (rapid): vectors built by construction from a known assignment; oracle = the generator's assignment / the reference parser",
  text="60k vectors per version per quick run, built from a known assignment (all v2 layouts incl. all-ND and one-defined groups, shuffled v3 order, explicit X, every U spelling); after ParseVector every Get must return the written value or ND/X. The C01 string mix filtered through the reference parser adds non-constructed accepted strings, and an exhaustive grid (every ordered pair of metrics x every pair of values; for v3 the pair is written first, in that order) exposes a Set that disturbs an earlier-written metric. Coverage requirement enforced: every (metric,value) pair written and every optional metric omitted at least once, else the run is inconclusive.  A second process runs the same check built for GOARCH=386 (32-bit int/uint) on a sampled workload with another seed.",
  note="Trusted base: spec/tables.go, spec/grammar.go. Conditional on acceptance (rejection of a valid vector is C01's).", ref="4 C06"),
 "C07": dict(
  technique="model-based stateful property testing (rapid histories against a map model) plus exhaustive ordered pair grids",
  text="Histories of up to 64 Set calls checked against a model map after every step (all Gets equal the model; failed Set leaves the object == its copy; Set succeeds exactly for legal pairs). The final assignment is rebuilt on a fresh object in a random order after random detours and via ParseVector of another spelling: all three must be ==. Every ordered pair ((m1,v1),(m2,v2)) on 5 backgrounds per version is enumerated exhaustively (catches a mask one bit too wide against every neighbour value).  A second process runs the same check built for GOARCH=386 (32-bit int/uint) on a sampled workload with another seed.",
  note="Trusted base: spec/tables.go (legal pairs).", ref="4 C07"),
 "C08": dict(
  technique="property-based testing (rapid): non-canonical valid spellings against a reference canonical serialiser",
  text="60k vectors per version biased to non-canonical spellings (explicit X, shuffled v3, all-ND and partially-ND v2 groups); ParseVector(s).Vector() must equal the reference canonical form of the known assignment, be accepted, and be a fixed point. Also on the C01 string mix filtered by the reference parser. Exhaustively every base x temporal/threat combination of every version in canonical spelling (thorough: x every security-requirement combination). A second process runs the same check built for GOARCH=386 (32-bit int/uint) on a sampled workload with another seed.",
  note="Trusted base: spec.Canon (spec/grammar.go).", ref="4 C08"),
 "C09": dict(
  technique="property-based testing (rapid) of (abbreviation,value) offers against table membership; invariant checking over generated histories; native fuzzing of Get/Set in the thorough tier",
  text="150k offers per quick run from pools of every version's abbreviations/values, case variants, padded, empty, raw bytes: Get succeeds iff the abbreviation is a metric of the version, Set iff additionally the value is legal; a failed Set leaves the object unchanged; plus the exhaustive grid of every pooled abbreviation x every pooled value (incl. the long names used in the specification texts) on two objects per version. Well-formedness invariant (every Get legal and non-empty, Vector() grammatical, every scoring method / Rating / Nomenclature returns without panic) on the zero value and after every step of 20k histories. The pools hold about 1,200 abbreviations and 1,500 values (disguises of every real token: NUL bytes, padding to 4/8 bytes, 256 extra bytes, a character whose code point truncates to a legal byte, value lists joined by separators, M-prefixed abbreviations); the grid is 14.8M offers. A second process runs the same check built for GOARCH=386 (32-bit int/uint) on a sampled workload with another seed.",
  note="Trusted base: spec/tables.go, spec/grammar.go.", ref="4 C09"),
 "C10": dict(
  technique="metamorphic property-based testing (rapid) plus an exhaustive metric x value grid",
  text="Five metamorphic relations between objects with the same effective values (explicit copy of the base value into an X Modified metric; change of an overridden base metric; v3 base/temporal under environmental changes; X <-> specification default; v4 supplemental metrics) on 150k generated objects with corner profiles (incl. base-impacts-None and effective-impacts-None), plus the exhaustive grid metric x base value x modified value x other base value on 20 backgrounds.  A second process runs the same check built for GOARCH=386 (32-bit int/uint) on a sampled workload with another seed.",
  note="The relation is between two runs of the implementation (that is what the property states); C03/C04 anchor the values.", ref="4 C10"),
 "C11": dict(
  technique="complete enumeration of all class spaces with a shape predicate; rapid lifts",
  text="After every Set step of 6k operation histories per version (objects on which a metric was set repeatedly), and every scoring method on all 139,968,000 v2 assignments, 2 x 16,588,800 v3 classes and 15,116,544 v4 classes, every run: finite, bit-exact nearest float64 to k/10, 0<=k<=100 (v2 EnvironmentalScore: k<=100 only, as stated), Rating accepts it. 60k raw lifts with corner profiles. exhaustive=true for the class part. Corner spaces of v3.0, v3.1 and v4.0 as in C03/C04 (every subset of the Modified metrics explicit at an extreme x requirement/temporal/threat spellings incl. X). A second process runs the same check built for GOARCH=386 (32-bit int/uint) on a sampled workload with another seed.",
  note="No oracle needed beyond the predicate in the statement.", ref="4 C11"),
 "C12": dict(
  technique="complete enumeration of neighbour graphs (metamorphic relation score(more severe) >= score(less severe))",
  text="All classes and all one-step neighbour pairs, with the undefined value (ND/X) of every defaulting metric as an extra level placed where it scores: v2 base+temporal (72,900 classes), v3.0 base+temporal (259,200), v3.1 base+temporal+environmental (16,588,800 classes), v4.0 (47,775,744 classes, about 500 million pairs), every run; exhaustive=true. v2/v3.0 environmental are outside the statement and not checked. Mixed carriers: the complete space of the Modified metrics (every value and X, X placed next to the base value it falls back to) over fixed base combinations - 4.6M classes per v4.0 base, 3.7M per v3.1 base; 3 bases per quick run (first values, last values, one rotating with the seed), 40 in the thorough tier - so every step expressed by defining a Modified metric on one side only is a checked pair. A second process runs the same check built for GOARCH=386 (32-bit int/uint) on a sampled workload with another seed.",
  note="Severity orders transcribed from the specifications (listed in the evidence assumptions).", ref="4 C12"),
 "C13": dict(
  technique="property-based testing (rapid): string mix, header transplants and Vector() outputs offered to all four parsers; native fuzzing in the thorough tier",
  text="For every generated string, and for the complete one-edit neighbourhood of 17 representative vectors, the number of accepting parsers must be <= 1; the body of a valid vector is transplanted under 16 header shapes; Vector() of generated objects of each version must be accepted by that version only. Exhaustively, Vector() of every base x temporal/threat combination of every version offered to all four parsers. A second process runs the same check built for GOARCH=386 (32-bit int/uint) on a sampled workload with another seed.",
  note="Implementation-only relation (count of acceptors); C01 anchors membership.", ref="4 C13"),
 "C14": dict(
  technique="randomised concurrent workloads compared with their sequential execution under the Go race detector; property-based history-independence and aliasing checks",
  text="(a) probe call before/after an unrelated history that dirties the v2 split pool: identical results, parse results anchored to the reference parser; (b,c) Vector() strings immutable across further calls and GC, copies and repeated parses independent; (d) 80 workloads per GOMAXPROCS in {1,2,4,16} (2-24 goroutines, half of them focused on one function of one package) compared call by call with the sequential execution; (e) hot loops: one pure function (Rating, ParseVector, Vector, scores, Get) hammered by 2-16 goroutines for up to 2.4 million calls per case against precomputed results (finds lost updates in non-atomic caches that the race detector cannot see); (f) cold starts: for every (function, version) pair, fresh child processes whose very first calls are made concurrently by 16-48 goroutines and compared with the same calls made afterwards (finds lazily initialised state published before it is complete). Binary built with -race; a race report fails the check and the workload is the replay (re-run 50x). Interleavings are sampled, not enumerated: exploration only. (i) retention: Vector() strings and parsed objects kept in a window of 4,096 per goroutine with private copies over 150k-600k further calls, sequentially and with 16 goroutines (a buffer or slot handed out twice after an offset wrapped, or at the moment a shared block is replaced). A second process runs the sequential families and the retention runs in a build WITHOUT the race detector (under -race sync.Pool drops a quarter of its entries at random, so pooled state never grows old).",
  note="Assumes the Go race detector's happens-before analysis; the scheduler is not controlled.", ref="4 C14"),
 "C15": dict(
  technique="exhaustive boundary enumeration plus property-based testing (rapid floats) against a reference scale; native fuzzing on float64 bits in the thorough tier",
  text="All thresholds with +-1..3 ulp and small offsets, all 101 one-decimal scores in both spellings with ulp neighbours, -0, +-Inf, extremes (exhaustive list) plus 100k generated floats (uniform bits, near thresholds, ulp walks, real scores) against the five-line piecewise scale, in the three packages; errors.Is(ErrOutOfBoundsScore) and empty string outside [0,10].  A second process runs the same check built for GOARCH=386 (32-bit int/uint) on a sampled workload with another seed.",
  note="NaN left unspecified as in the statement.", ref="4 C15"),
 "C16": dict(
  technique="exhaustive enumeration of single and paired optional metrics plus property-based testing (rapid) against a model",
  text="Every single optional metric x every value x 10 base backgrounds (exhaustive), every pair of optional metrics, and 60k generated objects; Nomenclature compared with the rule evaluated on the model.  A second process runs the same check built for GOARCH=386 (32-bit int/uint) on a sampled workload with another seed.",
  note="Trusted base: spec.NomenclatureV4.", ref="4 C16"),
 "C17": dict(
  technique="property-based testing (rapid) with runtime allocation counters as the oracle (testing.AllocsPerRun per case; exact runtime.MemStats totals over long call streams)",
  text="Exhaustively every optional metric x every value, alone and with all other optional metrics defined (the shapes that expose one lenVec branch), plus 2.5k valid vectors per version per quick run, each also measured with a rejected near-miss parsed before every successful parse (a scratch buffer lost on an error path) (all subsets of optional metrics / layouts / U spellings; coverage of every optional metric and U spelling enforced); ParseVector <=1, Vector() =1, Get/Set (legal and illegal value) =0, every scoring method, Rating, Nomenclature =0 allocations. Minimum of up to 4 measurements on a miss. Own process, no race detector. Exact totals over streams with the collector off: for every (version, function) 60k calls on one vector and one call on each of 8k different objects never met before must allocate N x budget in total (slack 4, smallest of 3 measurements) - a call that allocates once in a thousand, or only the first time a value is seen, is invisible to allocs/op but not to the total.",
  note="Measured on the default toolchain go1.23.5 linux/amd64, steady state.", ref="4 C17"),
 "C18": dict(
  technique="property-based testing (rapid): single-defect injection with the expected error known by construction",
  text="120k single-defect vectors per quick run (kind x position x metric coverage enforced) with the documented error value asserted via errors.Is / errors.As, plus Get/Set with unknown abbreviations and illegal values. One genuine deviation is recorded as known finding F3 (printed as KNOWN-FINDING, its cases counted and excluded by a matcher on the defect's kind and position); any other deviation is a violation.  A second process runs the same check built for GOARCH=386 (32-bit int/uint) on a sampled workload with another seed.",
  note="Only error classes the statement names unambiguously are asserted (see DESIGN 4 C18).", ref="4 C18"),
}


def main():
    checks = []
    for pid in sorted(P):
        p = P[pid]
        checks.append({
            "property_id": pid,
            "quick_cmd": "./check %s quick" % pid,
            "thorough_cmd": "./check %s thorough" % pid,
            "evidence_file": "/verif/evidence/%s.json" % pid,
            "replay_cmd_template": "./check %s --replay {path}" % pid,
            "engine": "harness",
            "level_claimed": {"category": "exploration", "text": p["text"], "design_ref": "DESIGN.md section " + p["ref"]},
            "level_note": p["note"],
            "technique": p["technique"],
        })
    m = {
        "version": 1,
        "setup_cmd": "./check --build && cd harness && GOFLAGS=-mod=mod GOPROXY=off GOSUMDB=off GOTOOLCHAIN=local GOWORK=off go test -vet=off -count=1 ./spec",
        "hooks": {
            "guard": "verif",
            "enable": "no hooks exist: every check uses only the exported API of the four packages (the harness module replaces github.com/pandatix/go-cvss with /repo and rebuilds it on every run)",
            "baseline_off_cmd": "/verif/baseline.sh",
            "source_commits": [],
            "add_only": True,
        },
        "engines": [{
            "name": "harness",
            "path": "/verif/harness",
            "serves_properties": sorted(P),
            "kind_free_text": "Go module: spec (reference grammars, canonical serialiser, exact scoring oracles), gen (rapid generators), ev (evidence, replays, known findings), adapt (one interface over the four packages), props (one TestCxx per property + native fuzz targets); driver /verif/check",
        }],
        "checks": checks,
        "not_applicable": [],
        "notes": "Two genuine defects of the pinned tree were repaired by fix: commits in /repo (4be6207, d5c421f; see KNOWN_FINDINGS.json and DESIGN.md section 5); one is recorded as known finding F3 (C18). exit 2 from a check means inconclusive (build failure, time-out, generator-health requirement not met), never a violation.",
    }
    json.dump(m, open(os.path.join(VERIF, "MANIFEST.json"), "w"), indent=1)
    print("wrote MANIFEST.json with", len(checks), "checks")


if __name__ == "__main__":
    main()
