#!/bin/bash
# Runs the repository's pinned baseline suite (hook guard OFF: no build tag) on a
# throw-away copy of /repo's working tree and compares the result with the
# stable_pass list of /root/.vp/BASELINE.json. Exit 0 iff every stable test passes.
# usage: baseline.sh [repo-dir]
set -u
REPO=${1:-/repo}
TMP=$(mktemp -d /tmp/baseline.XXXXXX)
trap 'rm -rf "$TMP"' EXIT
rsync -a --exclude .git "$REPO"/ "$TMP"/repo/
export GOPROXY=off GOSUMDB=off GOTOOLCHAIN=local GOFLAGS=
unset GOWORK
: > "$TMP/out.json"
for m in . ./differential; do
  (cd "$TMP/repo/$m" && go test -json -vet=off -count=1 -timeout 25m ./... >> "$TMP/out.json" 2>"$TMP/err.txt")
done
python3 - "$TMP/out.json" <<'PY'
import json, sys
res = {}
for line in open(sys.argv[1], errors="replace"):
    try:
        e = json.loads(line)
    except ValueError:
        continue
    if e.get("Test") and e.get("Action") in ("pass", "fail", "skip"):
        res[e["Package"] + "::" + e["Test"]] = e["Action"]
base = json.load(open("/root/.vp/BASELINE.json"))
stable = base["stable_pass"]
bad = [t for t in stable if res.get(t) != "pass"]
print("baseline: %d/%d stable tests pass" % (len(stable) - len(bad), len(stable)))
for t in bad[:20]:
    print("  NOT PASSING:", t, res.get(t))
sys.exit(1 if bad else 0)
PY
