package props

import (
	"fmt"
	"math"
	"strings"
	"testing"

	"pgregory.net/rapid"

	"verifharness/adapt"
	"verifharness/gen"
	"verifharness/spec"
)

// ---- shared: running a history against the model ---------------------------

// modelSet is the oracle for Set: succeeds iff the abbreviation is one of the
// version's metrics (case-sensitive) and the value one of its values.
func modelSet(v *spec.Version, model spec.Assignment, abv, val string) bool {
	m := v.Metric(abv)
	if m == nil || !m.HasValue(val) {
		return false
	}
	model[abv] = val
	return true
}

// zeroModel reads the zero value's assignment through Get (the zero value is a
// reachable object; its content is whatever the library defines, C09 checks it
// is well formed).
func startObject(p *adapt.Pkg, start string) (adapt.Obj, spec.Assignment, error) {
	if start == "" {
		o := p.Zero()
		a, err := p.Read(o)
		if err != nil {
			return nil, nil, err
		}
		for _, m := range p.V.Metrics {
			if !m.HasValue(a[m.Abv]) {
				return nil, nil, fmt.Errorf("zero value of v%s: Get(%s) = %q is not a legal value", p.V.Name, m.Abv, a[m.Abv])
			}
		}
		return o, a, nil
	}
	a, ok := spec.Parse(p.V, start)
	if !ok {
		return nil, nil, fmt.Errorf("harness: start vector %q is not valid", start)
	}
	o, err, pan := p.SafeParse(start)
	if pan != nil || err != nil || o == nil {
		return nil, nil, errSkip // C01 owns this
	}
	return o, a, nil
}

var errSkip = fmt.Errorf("skip")

func gets(p *adapt.Pkg, o adapt.Obj, model spec.Assignment, ctx string) error {
	for _, m := range p.V.Metrics {
		g, err := o.Get(m.Abv)
		if err != nil {
			return fmt.Errorf("%s: Get(%s) fails: %v", ctx, m.Abv, err)
		}
		if g != model[m.Abv] {
			return fmt.Errorf("%s: Get(%s) = %q, want %q", ctx, m.Abv, g, model[m.Abv])
		}
	}
	return nil
}

func optionalDefined(v *spec.Version, a spec.Assignment) int {
	n := 0
	for _, m := range v.Metrics {
		if !m.Mandatory && a[m.Abv] != v.ND {
			n++
		}
	}
	return n
}

// roundTrip is the C02 predicate on one object.
func roundTrip(p *adapt.Pkg, o adapt.Obj, ctx string) error {
	var s string
	if e := adapt.Safe(func() { s = o.Vector() }); e != nil {
		return fmt.Errorf("%s: Vector(): %v", ctx, e)
	}
	if !spec.Member(p.V, s) {
		return fmt.Errorf("%s: Vector() = %q is not a well-formed v%s vector", ctx, s, p.V.Name)
	}
	q, err, pan := p.SafeParse(s)
	if pan != nil {
		return fmt.Errorf("%s: ParseVector(Vector()=%q) panicked: %v", ctx, s, pan)
	}
	if err != nil || q == nil {
		return fmt.Errorf("%s: ParseVector rejects its own Vector() output %q: %v", ctx, s, err)
	}
	if !q.Eq(o) {
		return fmt.Errorf("%s: ParseVector(Vector()) != object: %q gives state %s, object state %s", ctx, s, q.State(), o.State())
	}
	for _, m := range p.V.Metrics {
		g1, e1 := o.Get(m.Abv)
		g2, e2 := q.Get(m.Abv)
		if e1 != nil || e2 != nil || g1 != g2 {
			return fmt.Errorf("%s: after round trip through %q Get(%s) = %q (was %q)", ctx, s, m.Abv, g2, g1)
		}
	}
	return nil
}

// ---------------------------------------------------------------- C02

func checkRoundTripHistory(c gen.History) error {
	p := adapt.Pkgs[c.Ver]
	o, _, err := startObject(p, c.Start)
	if err == errSkip {
		return nil
	}
	if err != nil {
		return err
	}
	if err := roundTrip(p, o, "start"); err != nil {
		return err
	}
	for i, op := range c.Ops {
		o.Set(string(op.Abv), string(op.Val)) // successful or failed: both are reachable histories
		if err := roundTrip(p, o, fmt.Sprintf("after step %d Set(%q,%q)", i, string(op.Abv), string(op.Val))); err != nil {
			return err
		}
	}
	return nil
}

// PairCase: on a background object, set two metrics, then check (C02 / C07).
type PairCase struct {
	Ver    int    `json:"ver"`
	BG     int    `json:"background"`
	M1, M2 int    `json:"-"`
	V1, V2 int    `json:"-"`
	A1     string `json:"m1"`
	Val1   string `json:"v1"`
	A2     string `json:"m2"`
	Val2   string `json:"v2"`
}

const nBackgrounds = 5

func background(v *spec.Version, bg int) spec.Assignment {
	a := spec.Assignment{}
	for i, m := range v.Metrics {
		switch bg {
		case 0:
			a[m.Abv] = m.Vals[0]
		case 1:
			a[m.Abv] = m.Vals[len(m.Vals)-1]
		default:
			a[m.Abv] = m.Vals[(i*7+bg*3+i/3)%len(m.Vals)]
		}
	}
	return a
}

// pairIndex enumerates (bg, m1, v1, m2, v2) with m1 != m2.
type pairSpace struct {
	v     *spec.Version
	cases []PairCase
}

func newPairSpace(vi int) *pairSpace {
	v := spec.Versions[vi]
	ps := &pairSpace{v: v}
	for bg := 0; bg < nBackgrounds; bg++ {
		for i1, m1 := range v.Metrics {
			for _, v1 := range m1.Vals {
				for i2, m2 := range v.Metrics {
					if i1 == i2 {
						continue
					}
					for _, v2 := range m2.Vals {
						ps.cases = append(ps.cases, PairCase{Ver: vi, BG: bg, A1: m1.Abv, Val1: v1, A2: m2.Abv, Val2: v2})
					}
				}
			}
		}
	}
	return ps
}

func pairObject(c PairCase) (*adapt.Pkg, adapt.Obj, spec.Assignment, error) {
	p := adapt.Pkgs[c.Ver]
	model := background(p.V, c.BG)
	o, err := p.Build(model)
	if err != nil {
		return nil, nil, nil, err
	}
	if err := o.Set(c.A1, c.Val1); err != nil {
		return nil, nil, nil, fmt.Errorf("Set(%s,%s): %v", c.A1, c.Val1, err)
	}
	model[c.A1] = c.Val1
	if err := o.Set(c.A2, c.Val2); err != nil {
		return nil, nil, nil, fmt.Errorf("Set(%s,%s): %v", c.A2, c.Val2, err)
	}
	model[c.A2] = c.Val2
	return p, o, model, nil
}

func checkPairRoundTrip(c PairCase) error {
	p, o, _, err := pairObject(c)
	if err != nil {
		return err
	}
	return roundTrip(p, o, fmt.Sprintf("background %d, Set(%s,%s), Set(%s,%s)", c.BG, c.A1, c.Val1, c.A2, c.Val2))
}

// PrefixCase: one object of a prefix space (C02).
type PrefixCase struct {
	Ver int               `json:"ver"`
	A   map[string]string `json:"assignment"`
}

func checkPrefixRoundTrip(c PrefixCase) error {
	pk := adapt.Pkgs[c.Ver]
	o, err := pk.Build(c.A)
	if err != nil {
		return err
	}
	return roundTrip(pk, o, "object "+spec.Canon(pk.V, c.A))
}

func histKey(c gen.History) string {
	var b strings.Builder
	fmt.Fprintf(&b, "%d|%s", c.Ver, c.Start)
	for _, op := range c.Ops {
		b.WriteString("|" + string(op.Abv) + "=" + string(op.Val))
	}
	return b.String()
}

// finalModel replays a history on the model only.
func finalModel(c gen.History) (spec.Assignment, int, int) {
	p := adapt.Pkgs[c.Ver]
	var model spec.Assignment
	if c.Start == "" {
		_, model, _ = startObject(p, "")
	} else {
		model, _ = spec.Parse(p.V, c.Start)
	}
	if model == nil {
		return nil, 0, 0
	}
	okN, failN := 0, 0
	for _, op := range c.Ops {
		if modelSet(p.V, model, string(op.Abv), string(op.Val)) {
			okN++
		} else {
			failN++
		}
	}
	return model, okN, failN
}

func TestC02(t *testing.T) {
	h := start(t, "C02", "operation histories per version (start: zero value or a parsed valid vector; up to 64 Set steps, 70% legal, 20% illegal value, 10% unknown metric) with the round trip checked after every step (Vector() well-formed by the reference grammar, ParseVector accepts it, result == object and equal on every Get); plus every ordered pair of (metric,value) settings on 5 backgrounds per version, and in the thorough tier all 139,968,000 v2.0 objects; non-trivial = the final object has at least one optional metric defined; distinct by history / pair")
	n := env.Scale(8000, 20000)
	if env.Shards > 1 {
		n = env.Scale(8000, 60000)
	}
	pairsSeen := map[string]bool{}
	for vi := range spec.Versions {
		vi := vi
		v := spec.Versions[vi]
		Rapid(h, "history", n, func(rt *rapid.T) gen.History {
			c := gen.Hist(rt, vi, 64)
			model, okN, failN := finalModel(c)
			key := ""
			nd := 0
			if model != nil {
				nd = optionalDefined(v, model)
				for k, val := range model {
					pairsSeen[v.Name+k+":"+val] = true
				}
			}
			if nd > 0 {
				key = histKey(c)
			}
			startKind := "zero"
			if c.Start != "" {
				startKind = "parsed"
			}
			h.R.Case(fmt.Sprintf("history v%s start=%s optional-defined=%s", v.Name, startKind, bucket(nd)), key)
			h.R.Count("Set steps succeeding (model)", int64(okN))
			h.R.Count("Set steps failing (model)", int64(failN))
			if h.R.WantSample("history v" + v.Name) {
				h.R.Sample("history v"+v.Name, c)
			}
			return c
		}, checkRoundTripHistory)
	}
	if env.Shards <= 1 {
		for vi := range spec.Versions {
			ps := newPairSpace(vi)
			var nt int64
			for _, c := range ps.cases {
				_, _, model, err := pairObject(c)
				if err == nil && optionalDefined(ps.v, model) > 0 {
					nt++
				}
			}
			Enum(h, "pair", len(ps.cases), func(i int) PairCase { return ps.cases[i] }, nil, checkPairRoundTrip)
			if !h.replaying() {
				h.R.AddExact(int64(len(ps.cases)), nt)
				h.R.Count(fmt.Sprintf("pair grid v%s (ordered (metric,value) pairs x %d backgrounds)", ps.v.Name, nBackgrounds), int64(len(ps.cases)))
				h.R.Sample("pair", ps.cases[len(ps.cases)/2])
			}
		}
		// every base combination x every temporal / threat combination (thorough: x every
		// security-requirement combination), built by Set: the all-zero object and any single
		// object answered from a table are in here
		for vi, v := range spec.Versions {
			k := quickPrefix(vi)
			if env.Tier == "thorough" && !env.Light {
				k = fullPrefix(vi)
			}
			sp := newPrefixSpace(vi, k)
			Enum(h, "object", sp.size(), func(i int) PrefixCase { return PrefixCase{Ver: vi, A: sp.assignment(i)} }, nil, checkPrefixRoundTrip)
			if !h.replaying() {
				h.R.AddExact(int64(sp.size()), int64(sp.size()-sp.size()/sp.tailProduct(len(v.Base()))))
				h.R.Count(fmt.Sprintf("v%s exhaustive: every combination of the first %d metrics, built by Set and round-tripped", v.Name, k), int64(sp.size()))
			}
		}
		// every window of 6 consecutive metrics x every combination of their values, on three backgrounds
		for vi, v := range spec.Versions {
			ws := newWindowSpace(vi, 7)
			Enum(h, "object", ws.size(), func(i int) PrefixCase { return PrefixCase{Ver: vi, A: ws.assignment(i)} }, nil, checkPrefixRoundTrip)
			if !h.replaying() {
				h.R.AddExact(int64(ws.size()), int64(ws.size()))
				h.R.Count(fmt.Sprintf("v%s exhaustive: every window of 7 consecutive metrics x all value combinations x 3 backgrounds, round-tripped", v.Name), int64(ws.size()))
			}
		}
		if env.Tier == "thorough" && !env.Light {
			c02AllV2(h)
		}
	}
	if h.replaying() {
		return
	}
	for _, v := range spec.Versions {
		for _, m := range v.Metrics {
			for _, val := range m.Vals {
				if !pairsSeen[v.Name+m.Abv+":"+val] && env.Shards <= 1 && !env.Light {
					h.R.Inconclusive("v%s %s:%s never held by a round-tripped history object", v.Name, m.Abv, val)
				}
			}
		}
	}
}

// c02AllV2 round-trips every one of the 139,968,000 v2.0 objects.
func c02AllV2(h *H) {
	check := func(a spec.Assignment) error {
		o, err := adapt.P20.Build(a)
		if err != nil {
			return err
		}
		return roundTrip(adapt.P20, o, "v2 object "+spec.Canon(spec.V2, a))
	}
	if doReplay(h, "v2-object", check) {
		return
	}
	radix := v2Radix()
	Enum(h, "v2-object", v2Total, v2Decode, func(idx int) bool {
		// fast path: build by Set, Vector, Parse, ==
		var digits [14]int
		x := idx
		for i := 13; i >= 0; i-- {
			digits[i] = x % radix[i]
			x /= radix[i]
		}
		o := adapt.P20.Zero()
		for i, m := range spec.V2.Metrics {
			if o.Set(m.Abv, m.Vals[digits[i]]) != nil {
				return false
			}
		}
		s := o.Vector()
		q, err := adapt.P20.Parse(s)
		return err == nil && q != nil && q.Eq(o)
	}, check)
	h.R.AddExact(v2Total, v2Total-72900)
	h.R.Count("v2.0 objects round-tripped exhaustively", v2Total)
}

// ---------------------------------------------------------------- C07

// SetCase: a history checked against the model after every step, followed by a
// rebuild of the final assignment in another order with detours.
type SetCase struct {
	H       gen.History `json:"history"`
	Perm    []int       `json:"perm"`    // order in which the final assignment is rebuilt
	Detours []gen.Op    `json:"detours"` // extra Set calls interleaved before the rebuild
	Spell   []int       `json:"spell"`   // for the parse route: permutation / explicit-X choices
}

func checkSetHistory(c SetCase) error {
	p := adapt.Pkgs[c.H.Ver]
	v := p.V
	o, model, err := startObject(p, c.H.Start)
	if err == errSkip {
		return nil
	}
	if err != nil {
		return err
	}
	if err := gets(p, o, model, "start"); err != nil {
		return err
	}
	for i, op := range c.H.Ops {
		abv, val := string(op.Abv), string(op.Val)
		before := o.Clone()
		want := model.Clone()
		legal := modelSet(v, want, abv, val)
		err := o.Set(abv, val)
		ctx := fmt.Sprintf("step %d Set(%q,%q) on %s", i, abv, val, spec.Canon(v, model))
		if legal != (err == nil) {
			return fmt.Errorf("%s: err=%v, but the pair is legal=%v", ctx, err, legal)
		}
		if err != nil && !o.Eq(before) {
			return fmt.Errorf("%s failed (%v) but changed the object: %s -> %s", ctx, err, before.State(), o.State())
		}
		model = want
		if err := gets(p, o, model, ctx); err != nil {
			return err
		}
		// the read-only methods (Get above, Vector, every scoring method, Nomenclature) must leave
		// the receiver unchanged: only Set changes an object
		snapshot := o.Clone()
		if e := adapt.Safe(func() { o.Vector(); o.Scores(); o.SubScores(); o.Nomenclature() }); e != nil {
			return fmt.Errorf("%s: %v", ctx, e)
		}
		if !o.Eq(snapshot) {
			return fmt.Errorf("%s: calling Vector / the scoring methods / Nomenclature changed the object: %s -> %s", ctx, snapshot.State(), o.State())
		}
		if err := gets(p, o, model, ctx+", then the read-only methods"); err != nil {
			return err
		}
	}
	// history independence of ==: rebuild the same assignment another way
	q := p.Zero()
	for _, op := range c.Detours {
		q.Set(string(op.Abv), string(op.Val))
	}
	perm := c.Perm
	if len(perm) != len(v.Metrics) {
		perm = nil
		for i := range v.Metrics {
			perm = append(perm, i)
		}
	}
	for _, i := range perm {
		if i < 0 || i >= len(v.Metrics) {
			return nil
		}
		m := v.Metrics[i]
		if err := q.Set(m.Abv, model[m.Abv]); err != nil {
			return fmt.Errorf("rebuild: Set(%s,%q): %v", m.Abv, model[m.Abv], err)
		}
	}
	if !q.Eq(o) {
		return fmt.Errorf("two objects holding %s are not ==: history gives %s, rebuild in order %v gives %s", spec.Canon(v, model), o.State(), perm, q.State())
	}
	// third route: ParseVector of a (non-canonical where possible) spelling
	var written []string
	for _, m := range v.Metrics {
		if m.Mandatory || model[m.Abv] != v.ND || v.Name == "2.0" {
			written = append(written, m.Abv)
		} else if len(c.Spell) > 0 && c.Spell[0]%2 == 1 {
			written = append(written, m.Abv) // explicit X
		}
	}
	if v.Name == "2.0" {
		written = nil
		for _, m := range v.Metrics[:6] {
			written = append(written, m.Abv)
		}
		grp := func(from, to int) {
			any := false
			for _, m := range v.Metrics[from:to] {
				if model[m.Abv] != "ND" {
					any = true
				}
			}
			if any || (len(c.Spell) > 0 && c.Spell[0]%2 == 1) {
				for _, m := range v.Metrics[from:to] {
					written = append(written, m.Abv)
				}
			}
		}
		grp(6, 9)
		grp(9, 14)
	}
	if (v.Name == "3.0" || v.Name == "3.1") && len(c.Spell) > 1 {
		// deterministic shuffle driven by c.Spell
		for i := len(written) - 1; i > 0; i-- {
			j := c.Spell[(i+1)%len(c.Spell)]
			if j < 0 {
				j = -j
			}
			j %= i + 1
			written[i], written[j] = written[j], written[i]
		}
	}
	s := spec.Spell(v, model, written)
	r, err, pan := p.SafeParse(s)
	if pan == nil && err == nil && r != nil {
		if !r.Eq(o) {
			return fmt.Errorf("two objects holding %s are not ==: history gives %s, ParseVector(%q) gives %s", spec.Canon(v, model), o.State(), s, r.State())
		}
	}
	return nil
}

func checkPairSet(c PairCase) error {
	p, o, model, err := pairObject(c)
	if err != nil {
		return err
	}
	return gets(p, o, model, fmt.Sprintf("background %d, Set(%s,%s), Set(%s,%s)", c.BG, c.A1, c.Val1, c.A2, c.Val2))
}

// checkWindowSet: on the object of a window case, every metric is set to every one of its values in turn (each
// time on a fresh copy) and the result must be == the object built from the model with that one entry changed;
// a Set with an illegal value must leave the copy untouched.
func checkWindowSet(c PrefixCase) error {
	if c.Ver < 0 || c.Ver > 3 {
		return nil
	}
	p := adapt.Pkgs[c.Ver]
	base, err := p.Build(c.A)
	if err != nil {
		return err
	}
	for _, m := range p.V.Metrics {
		old := c.A[m.Abv]
		for _, val := range m.Vals {
			o := base.Clone()
			if err := o.Set(m.Abv, val); err != nil {
				return fmt.Errorf("v%s Set(%s,%s) on %s: %v", p.V.Name, m.Abv, val, spec.Canon(p.V, c.A), err)
			}
			// every other metric unchanged, this one as set
			for _, x := range p.V.Metrics {
				want := c.A[x.Abv]
				if x.Abv == m.Abv {
					want = val
				}
				if g, _ := o.Get(x.Abv); g != want {
					return fmt.Errorf("v%s: after Set(%s,%s) on %s, Get(%s) = %q, want %q", p.V.Name, m.Abv, val, spec.Canon(p.V, c.A), x.Abv, g, want)
				}
			}
			// and back again: the object must be == the one it started from
			if err := o.Set(m.Abv, old); err != nil || !o.Eq(base) {
				return fmt.Errorf("v%s: Set(%s,%s) then Set(%s,%s) on %s does not give back the same object (err %v, state %s, was %s)", p.V.Name, m.Abv, val, m.Abv, old, spec.Canon(p.V, c.A), err, o.State(), base.State())
			}
		}
		o := base.Clone()
		if err := o.Set(m.Abv, "~"); err == nil || !o.Eq(base) {
			return fmt.Errorf("v%s: Set(%s,\"~\") on %s: err=%v, object changed=%v", p.V.Name, m.Abv, spec.Canon(p.V, c.A), err, !o.Eq(base))
		}
	}
	return nil
}

// straddlers are the fields split across two bytes (reported separately).
var straddlers = map[string]map[string]bool{
	"2.0": {"RL": true, "TD": true},
	"3.0": {"C": true, "IR": true}, "3.1": {"C": true, "IR": true},
	"4.0": {"MAC": true, "MVC": true, "MSI": true, "AU": true, "U": true},
}

func TestC07(t *testing.T) {
	h := start(t, "C07", "operation histories (as C02) against a model map: after every step all Gets must equal the model, a failed Set must leave the object == its copy, Set must succeed exactly for legal (metric,value) pairs; the final assignment is rebuilt on a fresh object in a random order after random detours and through ParseVector of another spelling, and all must be ==; plus every ordered pair of (metric,value) settings on 5 backgrounds per version; non-trivial = a history containing a successful Set that changes the stored value while another metric holds a non-first value; distinct by history")
	n := env.Scale(8000, 20000)
	if env.Shards > 1 {
		n = env.Scale(8000, 60000)
	}
	for vi := range spec.Versions {
		vi := vi
		v := spec.Versions[vi]
		Rapid(h, "history", n, func(rt *rapid.T) SetCase {
			c := SetCase{H: gen.Hist(rt, vi, 64)}
			idx := make([]int, len(v.Metrics))
			for i := range idx {
				idx[i] = i
			}
			c.Perm = rapid.Permutation(idx).Draw(rt, "perm")
			nd := rapid.IntRange(0, 8).Draw(rt, "ndetours")
			for i := 0; i < nd; i++ {
				c.Detours = append(c.Detours, gen.SetOp(rt, vi))
			}
			c.Spell = rapid.SliceOfN(rapid.IntRange(0, 1000), 4, 4).Draw(rt, "spell")
			// classify by replaying on the model
			p := adapt.Pkgs[vi]
			var model spec.Assignment
			if c.H.Start == "" {
				_, model, _ = startObject(p, "")
			} else {
				model, _ = spec.Parse(v, c.H.Start)
			}
			changing, straddle, failed := 0, 0, 0
			if model != nil {
				for _, op := range c.H.Ops {
					abv, val := string(op.Abv), string(op.Val)
					old := model[abv]
					if modelSet(v, model, abv, val) {
						others := false
						for _, m := range v.Metrics {
							if m.Abv != abv && model[m.Abv] != m.Vals[0] {
								others = true
							}
						}
						if old != val && others {
							changing++
							if straddlers[v.Name][abv] {
								straddle++
							}
						}
					} else {
						failed++
					}
				}
			}
			key := ""
			if changing > 0 {
				key = histKey(c.H)
			}
			h.R.Case(fmt.Sprintf("history v%s value-changing-sets=%s", v.Name, bucket(changing)), key)
			h.R.Count("value-changing successful Set steps", int64(changing))
			h.R.Count("... of which on a byte-straddling field", int64(straddle))
			h.R.Count("failing Set steps (illegal value or unknown metric)", int64(failed))
			if h.R.WantSample("history v" + v.Name) {
				h.R.Sample("history v"+v.Name, c)
			}
			return c
		}, checkSetHistory)
	}
	if env.Shards <= 1 {
		for vi := range spec.Versions {
			ps := newPairSpace(vi)
			Enum(h, "pair", len(ps.cases), func(i int) PairCase { return ps.cases[i] }, nil, checkPairSet)
			if !h.replaying() {
				h.R.AddExact(int64(len(ps.cases)), int64(len(ps.cases)))
				h.R.Count(fmt.Sprintf("pair grid v%s (ordered (metric,value) pairs x %d backgrounds)", ps.v.Name, nBackgrounds), int64(len(ps.cases)))
				h.R.Sample("pair", ps.cases[len(ps.cases)/3])
			}
		}
		// every pooled abbreviation that is not a metric of the version x every value that is legal for some metric of
		// the version: Set must fail and leave the object unchanged (an unknown abbreviation that is taken for a
		// neighbouring metric - the Modified prefix put on a metric that has no Modified form - changes that metric)
		for vi, v := range spec.Versions {
			seenVal := map[string]bool{}
			var vals []string
			for _, m := range v.Metrics {
				for _, x := range m.Vals {
					if !seenVal[x] {
						seenVal[x] = true
						vals = append(vals, x)
					}
				}
			}
			var unknown []string
			for _, a := range gen.AllAbvs() {
				if !v.Has(a) {
					unknown = append(unknown, a)
				}
			}
			bgc := Offer{Ver: vi, A: background(v, 3)}
			if o, err := adapt.Pkgs[vi].Build(bgc.A); err == nil {
				bgc.base = o
			}
			per := len(vals)
			Enum(h, "unknown-set", len(unknown)*per, func(i int) Offer {
				c := bgc
				c.Abv, c.Val = gen.BStr(unknown[i/per]), gen.BStr(vals[i%per])
				return c
			}, nil, checkOffer)
			if !h.replaying() {
				h.R.AddExact(int64(len(unknown)*per), int64(len(unknown)*per))
				h.R.Count(fmt.Sprintf("v%s exhaustive: Set with every pooled unknown abbreviation x every value legal somewhere in the version", v.Name), int64(len(unknown)*per))
			}
			// every metric of the version x every pooled value (legal ones, other versions' values, every disguise of a
			// legal value): Set succeeds exactly for the legal pairs and a refused Set leaves the object unchanged - the
			// random histories draw such a value now and then; here none of them is left to chance
			pool := gen.AllVals()
			Enum(h, "known-set", len(v.Metrics)*len(pool), func(i int) Offer {
				c := bgc
				c.Abv, c.Val = gen.BStr(v.Metrics[i/len(pool)].Abv), gen.BStr(pool[i%len(pool)])
				return c
			}, nil, checkOffer)
			if !h.replaying() {
				h.R.AddExact(int64(len(v.Metrics)*len(pool)), int64(len(v.Metrics)*len(pool)))
				h.R.Count(fmt.Sprintf("v%s exhaustive: Set of every metric with every pooled value (%d)", v.Name, len(pool)), int64(len(v.Metrics)*len(pool)))
			}
		}
		// every window of 5 consecutive metrics x all value combinations x 3 backgrounds: on each such object every
		// metric set to every value
		for vi, v := range spec.Versions {
			ws := newWindowSpace(vi, 5)
			Enum(h, "window-set", ws.size(), func(i int) PrefixCase { return PrefixCase{Ver: vi, A: ws.assignment(i)} }, nil, checkWindowSet)
			if !h.replaying() {
				h.R.AddExact(int64(ws.size()), int64(ws.size()))
				h.R.Count(fmt.Sprintf("v%s windows: every 5 consecutive metrics x all value combinations x 3 backgrounds, then every metric set to every value", v.Name), int64(ws.size()))
			}
		}
	}
}

// ---------------------------------------------------------------- C09

// Offer is one (abbreviation, value) pair offered to Get and Set on an object.
type Offer struct {
	Ver int               `json:"ver"`
	A   map[string]string `json:"object"`
	Abv gen.BStr          `json:"abv"`
	Val gen.BStr          `json:"val"`
	// base, when set, is an object already built from A (the exhaustive grid builds each background once)
	base adapt.Obj
}

func checkOffer(c Offer) error {
	p := adapt.Pkgs[c.Ver]
	v := p.V
	var o adapt.Obj
	if c.base != nil {
		o = c.base.Clone()
	} else {
		var err error
		if o, err = p.Build(c.A); err != nil {
			return err
		}
	}
	abv, val := string(c.Abv), string(c.Val)
	known := v.Has(abv)
	g, gerr := o.Get(abv)
	if known != (gerr == nil) {
		return fmt.Errorf("v%s Get(%q) = %q, %v; the abbreviation is a v%s metric: %v", v.Name, abv, g, gerr, v.Name, known)
	}
	if known && g != c.A[abv] {
		return fmt.Errorf("v%s Get(%q) = %q, want %q", v.Name, abv, g, c.A[abv])
	}
	legal := known && v.Metric(abv).HasValue(val)
	before := o.Clone()
	serr := o.Set(abv, val)
	if legal != (serr == nil) {
		return fmt.Errorf("v%s Set(%q,%q) = %v; the pair is legal: %v", v.Name, abv, val, serr, legal)
	}
	if serr != nil && !o.Eq(before) {
		return fmt.Errorf("v%s Set(%q,%q) failed but changed the object", v.Name, abv, val)
	}
	if serr != nil && c.base != nil {
		return nil // refused and unchanged: the invariant was established for the background itself
	}
	return wellFormed(p, o, fmt.Sprintf("after Set(%q,%q)", abv, val))
}

// wellFormed is the C09 invariant on one object.
func wellFormed(p *adapt.Pkg, o adapt.Obj, ctx string) error {
	v := p.V
	for _, m := range v.Metrics {
		g, err := o.Get(m.Abv)
		if err != nil || g == "" || !m.HasValue(g) {
			return fmt.Errorf("%s: v%s Get(%s) = %q, %v: not a legal value (state %s)", ctx, v.Name, m.Abv, g, err, o.State())
		}
	}
	var s string
	if e := adapt.Safe(func() { s = o.Vector() }); e != nil {
		return fmt.Errorf("%s: Vector(): %v", ctx, e)
	}
	if !spec.Member(v, s) {
		return fmt.Errorf("%s: Vector() = %q is not grammatical", ctx, s)
	}
	var scores []float64
	if e := adapt.Safe(func() { scores = o.Scores(); o.SubScores(); o.Nomenclature() }); e != nil {
		return fmt.Errorf("%s: scoring %q: %v", ctx, s, e)
	}
	if p.Rating != nil {
		for _, sc := range scores {
			if e := adapt.Safe(func() { p.Rating(sc) }); e != nil {
				return fmt.Errorf("%s: Rating(%v): %v", ctx, sc, e)
			}
		}
	}
	return nil
}

func checkWellFormedHistory(c gen.History) error {
	p := adapt.Pkgs[c.Ver]
	o, _, err := startObject(p, c.Start)
	if err == errSkip {
		return nil
	}
	if err != nil {
		return err
	}
	if err := wellFormed(p, o, "start"); err != nil {
		return err
	}
	for i, op := range c.Ops {
		o.Set(string(op.Abv), string(op.Val))
		if err := wellFormed(p, o, fmt.Sprintf("after step %d Set(%q,%q)", i, string(op.Abv), string(op.Val))); err != nil {
			return err
		}
	}
	return nil
}

func nearValid(v *spec.Version, abv, val string) string {
	switch {
	case v.Has(abv) && v.Metric(abv).HasValue(val):
		return "legal"
	case v.Has(abv):
		for _, m := range v.Metrics {
			if m.HasValue(val) {
				return "known metric, another metric's value"
			}
		}
		for _, x := range v.Metric(abv).Vals {
			if strings.EqualFold(x, val) {
				return "known metric, value in another case"
			}
		}
		return "known metric, other value"
	}
	for _, m := range v.Metrics {
		if strings.EqualFold(m.Abv, abv) {
			return "abbreviation in another case"
		}
	}
	for _, o := range spec.Versions {
		if o.Has(abv) {
			return "another version's abbreviation"
		}
	}
	return "unknown abbreviation"
}

// SliceOffer: the value offered to Set is a SLICE of a legal value of the metric - of the string that
// Get returns for it (it lies in the library's own constant data) or of the table literal (identical
// literals are merged by the linker): same address as a legal value, other length. A comparison that
// short-cuts on the address of the string data takes it for the legal value.
type SliceOffer struct {
	Ver      int    `json:"ver"`
	Abv      string `json:"abv"`
	Val      string `json:"legal_value"`
	From, To int
	FromGet  bool `json:"slice_of_get_result"`
}

func checkSliceOffer(c SliceOffer) error {
	if c.Ver < 0 || c.Ver > 3 {
		return nil
	}
	p := adapt.Pkgs[c.Ver]
	m := p.V.Metric(c.Abv)
	if m == nil || !m.HasValue(c.Val) || c.From < 0 || c.To > len(c.Val) || c.From > c.To {
		return nil
	}
	src := ""
	for _, x := range m.Vals { // the table's own literal, not the copy that came through JSON
		if x == c.Val {
			src = x
		}
	}
	o := p.Zero()
	if err := o.Set(c.Abv, src); err != nil {
		return nil // C09's offers own this
	}
	if c.FromGet {
		g, err := o.Get(c.Abv)
		if err != nil || g != c.Val {
			return nil
		}
		src = g
	}
	offered := src[c.From:c.To]
	// start from another legal value so that a wrongly accepted slice changes something visible
	other := m.Vals[0]
	if other == c.Val {
		other = m.Vals[len(m.Vals)-1]
	}
	if err := o.Set(c.Abv, other); err != nil {
		return nil
	}
	before := o.Clone()
	legal := m.HasValue(offered)
	err := o.Set(c.Abv, offered)
	if legal != (err == nil) {
		return fmt.Errorf("v%s Set(%q, %q) = %v when the value is the slice [%d:%d] of the legal value %q (slice of the Get result: %v); the pair is legal: %v", p.V.Name, c.Abv, offered, err, c.From, c.To, c.Val, c.FromGet, legal)
	}
	if err != nil && !o.Eq(before) {
		return fmt.Errorf("v%s Set(%q, %q) failed but changed the object", p.V.Name, c.Abv, offered)
	}
	if err == nil {
		if g, _ := o.Get(c.Abv); g != offered {
			return fmt.Errorf("v%s Set(%q, %q) succeeded and Get returns %q", p.V.Name, c.Abv, offered, g)
		}
	}
	return nil
}

// NearMiss: a legal Set(m, v) immediately followed by Set(m, v') where v' is a disguise of v (same prefix, same
// length with one character replaced, padded ...). A validator that remembers the last accepted pair under a
// key built from part of the value accepts v' only then.
type NearMiss struct {
	Ver  int      `json:"ver"`
	Abv  string   `json:"abv"`
	Val  string   `json:"legal_value"`
	Near gen.BStr `json:"offered_next"`
}

func checkNearMiss(c NearMiss) error {
	if c.Ver < 0 || c.Ver > 3 {
		return nil
	}
	p := adapt.Pkgs[c.Ver]
	m := p.V.Metric(c.Abv)
	if m == nil || !m.HasValue(c.Val) {
		return nil
	}
	near := string(c.Near)
	o, other := p.Zero(), p.Zero()
	if err := o.Set(c.Abv, c.Val); err != nil {
		return nil // C09's offers own this
	}
	before := o.Clone()
	otherBefore := other.Clone()
	legal := m.HasValue(near)
	// offered to ANOTHER object first (state kept by the package, not by the object), then to the same one
	for _, tgt := range []adapt.Obj{other, o} {
		err := tgt.Set(c.Abv, near)
		if legal != (err == nil) {
			return fmt.Errorf("v%s Set(%q,%q) = %v right after Set(%q,%q) succeeded; the pair is legal: %v", p.V.Name, c.Abv, near, err, c.Abv, c.Val, legal)
		}
	}
	if !legal && (!o.Eq(before) || !other.Eq(otherBefore)) {
		return fmt.Errorf("v%s Set(%q,%q) was refused but changed an object", p.V.Name, c.Abv, near)
	}
	return nil
}

func nearMisses() []NearMiss {
	var out []NearMiss
	for vi, v := range spec.Versions {
		for _, m := range v.Metrics {
			for _, val := range m.Vals {
				for _, d := range gen.Disguises(val) {
					out = append(out, NearMiss{Ver: vi, Abv: m.Abv, Val: val, Near: gen.BStr(d)})
				}
				for _, o := range m.Vals { // and every other legal value of the metric, lower-cased
					if o != val {
						out = append(out, NearMiss{Ver: vi, Abv: m.Abv, Val: val, Near: gen.BStr(strings.ToLower(o))})
					}
				}
			}
		}
	}
	return out
}

func sliceOffers() []SliceOffer {
	var out []SliceOffer
	for vi, v := range spec.Versions {
		for _, m := range v.Metrics {
			for _, val := range m.Vals {
				for from := 0; from <= len(val); from++ {
					for to := from; to <= len(val); to++ {
						if from == 0 && to == len(val) {
							continue
						}
						out = append(out, SliceOffer{Ver: vi, Abv: m.Abv, Val: val, From: from, To: to}, SliceOffer{Ver: vi, Abv: m.Abv, Val: val, From: from, To: to, FromGet: true})
					}
				}
			}
		}
	}
	return out
}

func drawOffer(rt *rapid.T) Offer {
	vi := gen.Version(rt)
	v := spec.Versions[vi]
	a, _ := gen.Object(rt, vi)
	c := Offer{Ver: vi, A: a}
	abvs, vals := gen.AllAbvs(), gen.AllVals()
	switch rapid.IntRange(0, 9).Draw(rt, "abvsrc") {
	case 0:
		c.Abv = gen.BStr(gen.Raw(rt))
	case 1, 2, 3:
		c.Abv = gen.BStr(abvs[rapid.IntRange(0, len(abvs)-1).Draw(rt, "abv")])
	default:
		c.Abv = gen.BStr(v.Metrics[rapid.IntRange(0, len(v.Metrics)-1).Draw(rt, "metric")].Abv)
		if rapid.IntRange(0, 9).Draw(rt, "pad") == 0 {
			c.Abv = gen.BStr([]string{" ", "", "\x00"}[rapid.IntRange(0, 2).Draw(rt, "padl")] + string(c.Abv) + []string{" ", "/", ":", "\x00", "X"}[rapid.IntRange(0, 4).Draw(rt, "padr")])
		}
	}
	switch rapid.IntRange(0, 9).Draw(rt, "valsrc") {
	case 0:
		c.Val = gen.BStr(gen.Raw(rt))
	case 1, 2, 3, 4:
		c.Val = gen.BStr(vals[rapid.IntRange(0, len(vals)-1).Draw(rt, "val")])
	default:
		if m := v.Metric(string(c.Abv)); m != nil {
			c.Val = gen.BStr(m.Vals[rapid.IntRange(0, len(m.Vals)-1).Draw(rt, "legalval")])
		} else {
			c.Val = gen.BStr(vals[rapid.IntRange(0, len(vals)-1).Draw(rt, "val")])
		}
	}
	return c
}

func TestC09(t *testing.T) {
	h := start(t, "C09", "(abbreviation, value) offers to Get and Set on generated objects (pools: every version's abbreviations and values, case variants, padded, empty, other versions', raw bytes) decided by table membership; plus the well-formedness invariant (every Get legal and non-empty, Vector() grammatical, every scoring method / Rating / Nomenclature returns) on the zero value and after every step of generated histories; non-trivial = a near-valid offer (known metric with another metric's value or another case, abbreviation in another case, another version's abbreviation); distinct by (version, abbreviation, value)")
	n := env.Scale(150000, 300000)
	if env.Shards > 1 {
		n = env.Scale(150000, 800000)
	}
	Rapid(h, "offer", n, func(rt *rapid.T) Offer {
		c := drawOffer(rt)
		v := spec.Versions[c.Ver]
		cls := nearValid(v, string(c.Abv), string(c.Val))
		key := ""
		if cls != "legal" && cls != "unknown abbreviation" && cls != "known metric, other value" {
			key = fmt.Sprintf("%d|%s|%s", c.Ver, string(c.Abv), string(c.Val))
		}
		h.R.Case("offer v"+v.Name+": "+cls, key)
		if h.R.WantSample("offer " + cls) {
			h.R.Sample("offer "+cls, map[string]any{"version": v.Name, "abv": c.Abv, "val": c.Val})
		}
		return c
	}, checkOffer)
	if env.Shards <= 1 {
		// exhaustive grid: every pooled abbreviation x every pooled value, on two objects per version
		abvs, vals := gen.AllAbvs(), gen.AllVals()
		var bgs []Offer
		for vi, v := range spec.Versions {
			for _, bg := range []int{0, 3} {
				c := Offer{Ver: vi, A: background(v, bg)}
				o, err := adapt.Pkgs[vi].Build(c.A)
				if err != nil {
					t.Fatalf("HARNESS-ERROR cannot build background: %v", err)
				}
				if err := wellFormed(adapt.Pkgs[vi], o, "background"); err != nil {
					h.fail("offer", c, err)
				}
				c.base = o
				bgs = append(bgs, c)
			}
		}
		per := len(abvs) * len(vals)
		decode := func(i int) Offer {
			c := bgs[i/per]
			c.Abv, c.Val = gen.BStr(abvs[(i%per)/len(vals)]), gen.BStr(vals[i%len(vals)])
			return c
		}
		Enum(h, "offer", per*len(bgs), decode, nil, checkOffer)
		if !h.replaying() {
			near := 0
			for vi, v := range spec.Versions {
				_ = vi
				for _, abv := range abvs {
					for _, val := range vals {
						if cl := nearValid(v, abv, val); cl != "legal" && cl != "unknown abbreviation" && cl != "known metric, other value" {
							near++
						}
					}
				}
			}
			h.R.AddExact(int64(per*len(bgs)), int64(near))
			h.R.Count(fmt.Sprintf("exhaustive pool grid: %d abbreviations x %d values x 4 versions x 2 objects", len(abvs), len(vals)), int64(per*len(bgs)))
		}
	}
	if env.Shards <= 1 {
		// exported methods beyond the ones the statements name (decoders, accessors), found by reflection
		dc, found := discoverCases()
		Enum(h, "discovered-api", len(dc), func(i int) DiscoverCase { return dc[i] }, nil, checkDiscover)
		if !h.replaying() {
			h.R.AddExact(int64(len(dc)), int64(len(dc)))
			h.R.Extra("exported_methods_beyond_the_named_ones", fmt.Sprintf("%d found %v; %d decoder inputs / accessor calls checked", len(found), found, len(dc)))
		}
	}
	if env.Shards <= 1 {
		// objects that lie at the edge of accessible memory: every method must return (and return the same)
		gc := guardObjCases()
		if !doReplay(h, "guarded-object", checkGuardObj) {
			for _, c := range gc {
				h.R.Pending("guarded-object", c)
				if err := safely(checkGuardObj, c); err != nil {
					h.fail("guarded-object", c, err)
				}
			}
			h.R.AddExact(int64(len(gc)), int64(len(gc)))
			h.R.Count("objects placed flush with an inaccessible page, every method called", int64(len(gc)))
		}
	}
	if env.Shards <= 1 {
		nm := nearMisses()
		// sequential on purpose: the second call must directly follow the first one in the whole process
		if !doReplay(h, "near-miss", checkNearMiss) {
			for _, c := range nm {
				if err := safely(checkNearMiss, c); err != nil {
					h.fail("near-miss", c, err)
				}
			}
			h.R.AddExact(int64(len(nm)), int64(len(nm)))
			h.R.Count("exhaustive: every legal Set(m,v) directly followed by Set(m,v') for every disguise v' of v", int64(len(nm)))
		}
	}
	if env.Shards <= 1 {
		so := sliceOffers()
		Enum(h, "slice-offer", len(so), func(i int) SliceOffer { return so[i] }, nil, checkSliceOffer)
		if !h.replaying() {
			h.R.AddExact(int64(len(so)), int64(len(so)))
			h.R.Count("exhaustive: every proper slice of every legal value (of the Get result and of the table literal) offered to Set", int64(len(so)))
		}
	}
	nh := env.Scale(5000, 15000)
	for vi := range spec.Versions {
		vi := vi
		Rapid(h, "history", nh, func(rt *rapid.T) gen.History {
			c := gen.Hist(rt, vi, 64)
			h.R.Case("history v"+spec.Versions[vi].Name, "H"+histKey(c))
			return c
		}, checkWellFormedHistory)
	}
}

// ---------------------------------------------------------------- C16

type NomCase struct {
	A map[string]string `json:"assignment"`
}

func checkNomenclature(c NomCase) error {
	o, err := adapt.P40.Build(c.A)
	if err != nil {
		return err
	}
	want := spec.NomenclatureV4(c.A)
	var got string
	if e := adapt.Safe(func() { got = o.Nomenclature() }); e != nil {
		return fmt.Errorf("Nomenclature of %s: %v", spec.Canon(spec.V4, c.A), e)
	}
	if got != want {
		return fmt.Errorf("Nomenclature of %s = %q, want %q", spec.Canon(spec.V4, c.A), got, want)
	}
	return nil
}

func TestC16(t *testing.T) {
	h := start(t, "C16", "v4.0 objects: (a) exhaustively every single optional metric (E, 14 environmental, 6 supplemental) x every non-X value x 10 base backgrounds, everything else X; (b) every pair of optional metrics x every pair of their non-X values on one background; (c) generated objects with corner profiles; the oracle is the nomenclature rule evaluated on the model; non-trivial = at least one optional metric defined; distinct by assignment")
	// (a) singletons, (b) pairs
	var cases []NomCase
	opt := spec.V4.Optional()
	baseBG := func(k int) spec.Assignment {
		a := spec.Assignment{}
		for i, m := range spec.V4.Metrics {
			if m.Mandatory {
				a[m.Abv] = m.Vals[(k+i*(k+1))%len(m.Vals)]
			} else {
				a[m.Abv] = "X"
			}
		}
		return a
	}
	for k := 0; k < 10; k++ {
		cases = append(cases, NomCase{baseBG(k)})
		for _, m := range opt {
			for _, val := range m.Vals[1:] {
				a := baseBG(k)
				a[m.Abv] = val
				cases = append(cases, NomCase{a})
			}
		}
	}
	nSingles := len(cases)
	for i, m1 := range opt {
		for _, m2 := range opt[i+1:] {
			for _, v1 := range m1.Vals[1:] {
				for _, v2 := range m2.Vals[1:] {
					a := baseBG(3)
					a[m1.Abv], a[m2.Abv] = v1, v2
					cases = append(cases, NomCase{a})
				}
			}
		}
	}
	if env.Shards <= 1 {
		Enum(h, "enumerated", len(cases), func(i int) NomCase { return cases[i] }, nil, checkNomenclature)
		ws := newWindowSpace(3, 8)
		Enum(h, "enumerated", ws.size(), func(i int) NomCase { return NomCase{A: ws.assignment(i)} }, nil, checkNomenclature)
		if !h.replaying() {
			h.R.AddExact(int64(ws.size()), int64(ws.size()))
			h.R.Count("windows: every 8 consecutive metrics x all value combinations x 3 backgrounds", int64(ws.size()))
		}
		if !h.replaying() {
			h.R.AddExact(int64(len(cases)), int64(len(cases)-10))
			h.R.Count("exactly one optional metric defined (exhaustive: metric x value x 10 backgrounds)", int64(nSingles-10))
			h.R.Count("exactly two optional metrics defined (all metric pairs x all value pairs)", int64(len(cases)-nSingles))
			h.R.Sample("singleton", map[string]any{"vector": spec.Canon(spec.V4, cases[17].A), "expected": spec.NomenclatureV4(cases[17].A)})
			h.R.Sample("pair", map[string]any{"vector": spec.Canon(spec.V4, cases[nSingles+5].A), "expected": spec.NomenclatureV4(cases[nSingles+5].A)})
		}
	}
	n := env.Scale(60000, 150000)
	if env.Shards > 1 {
		n = env.Scale(60000, 1000000)
	}
	Rapid(h, "random", n, func(rt *rapid.T) NomCase {
		a, prof := gen.Object(rt, 3)
		nd := optionalDefined(spec.V4, a)
		key := ""
		if nd > 0 {
			key = spec.Canon(spec.V4, a)
		}
		h.R.Case(fmt.Sprintf("random profile=%s optional-defined=%s expected=%s", prof, bucket(nd), spec.NomenclatureV4(a)), key)
		if h.R.WantSample("random " + spec.NomenclatureV4(a)) {
			h.R.Sample("random "+spec.NomenclatureV4(a), map[string]any{"vector": spec.Canon(spec.V4, a), "expected": spec.NomenclatureV4(a)})
		}
		return NomCase{a}
	}, checkNomenclature)
}

// ---------------------------------------------------------------- C15

type RatingCase struct {
	Bits uint64 `json:"float64_bits"`
	Text string `json:"value"` // informational
}

func checkRating(c RatingCase) error {
	x := math.Float64frombits(c.Bits)
	if math.IsNaN(x) {
		return nil // left unspecified
	}
	want, ok := spec.Rating(x)
	for _, p := range adapt.Pkgs[1:] {
		var got string
		var err error
		if e := adapt.Safe(func() { got, err = p.Rating(x) }); e != nil {
			return fmt.Errorf("v%s Rating(%v): %v", p.V.Name, x, e)
		}
		if ok {
			if err != nil || got != want {
				return fmt.Errorf("v%s Rating(%v) = %q, %v; want %q, nil", p.V.Name, x, got, err, want)
			}
		} else {
			if err == nil || got != "" || !isErr(err, p.Errs.OutOfBoundsScore) {
				return fmt.Errorf("v%s Rating(%v) = %q, %v; want \"\", ErrOutOfBoundsScore", p.V.Name, x, got, err)
			}
		}
	}
	return nil
}

func rc(x float64) RatingCase {
	return RatingCase{Bits: math.Float64bits(x), Text: fmt.Sprintf("%v", x)}
}

// RatingPair: two scores rated one after the other (the second answer must not depend on the first).
type RatingPair struct {
	A, B RatingCase
}

func checkRatingPair(c RatingPair) error {
	if err := checkRating(c.A); err != nil {
		return err
	}
	if err := checkRating(c.B); err != nil {
		return fmt.Errorf("%v (rated right after %s)", err, c.A.Text)
	}
	return nil
}

// ulpsFrom returns th moved by k units in the last place.
func ulpsFrom(th float64, k int) float64 {
	x := th
	for i := 0; i < k; i++ {
		x = math.Nextafter(x, math.Inf(1))
	}
	for i := 0; i > k; i-- {
		x = math.Nextafter(x, math.Inf(-1))
	}
	return x
}

const ulpWindow = 160

var ratingThresholds = []float64{0, 0.1, 4.0, 7.0, 9.0, 10.0}

func boundaryFloats() []float64 {
	var xs []float64
	add := func(x float64) {
		xs = append(xs, x)
		up, down := x, x
		for i := 0; i < 3; i++ {
			up = math.Nextafter(up, math.Inf(1))
			down = math.Nextafter(down, math.Inf(-1))
			xs = append(xs, up, down)
		}
	}
	for _, th := range ratingThresholds {
		add(th)
		for _, d := range []float64{1e-12, 1e-9, 1e-6, 0.01, 0.05} {
			xs = append(xs, th+d, th-d)
		}
	}
	for k := 0; k <= 100; k++ {
		add(float64(k) / 10)
		add(float64(k) * 0.1)
	}
	xs = append(xs, math.Copysign(0, -1), math.Inf(1), math.Inf(-1), math.MaxFloat64, -math.MaxFloat64, math.SmallestNonzeroFloat64, -math.SmallestNonzeroFloat64, -1e-300, 1e-300, -0.1, -1, 10.1, 11, 100, 1e9, -1e9, 5e-324, 2.2250738585072014e-308)
	return xs
}

func TestC15(t *testing.T) {
	h := start(t, "C15", "float64 scores offered to Rating of the 3.0, 3.1 and 4.0 packages: an exhaustive boundary list (every threshold with +-1..3 ulp and small offsets, all 101 one-decimal scores in both spellings k/10 and k*0.1 with their ulp neighbours, -0, +-Inf, +-MaxFloat64, subnormals), rapid floats (uniform bit patterns, uniform in [-1,11], near a threshold), and scores produced by the scoring functions; oracle: five-line piecewise scale; non-trivial = within 0.05 of a threshold or of a one-decimal score; distinct by bit pattern")
	bf := boundaryFloats()
	if env.Shards <= 1 {
		Enum(h, "boundary", len(bf), func(i int) RatingCase { return rc(bf[i]) }, nil, checkRating)
		if !h.replaying() {
			seen := map[uint64]bool{}
			for _, x := range bf {
				seen[math.Float64bits(x)] = true
			}
			h.R.AddExact(int64(len(bf)), int64(len(seen)))
			h.R.Count("boundary list (exhaustive)", int64(len(bf)))
			for _, x := range []float64{0.1, math.Nextafter(0.1, 0), 4.0, math.Nextafter(4.0, 0), 9.0, 10.0, math.Nextafter(10.0, 11), math.Copysign(0, -1)} {
				w, ok := spec.Rating(x)
				h.R.Sample("boundary", map[string]any{"x": fmt.Sprintf("%.17g", x), "expected": w, "in_range": ok})
			}
		}
	}
	if env.Shards <= 1 {
		// every ordered pair of floats within 160 units in the last place of a threshold, rated back to back:
		// a result remembered under a key that drops low mantissa bits answers for a neighbour on the other side
		w := 2*ulpWindow + 1
		per := w * w
		win := make([][]float64, len(ratingThresholds))
		for ti, th := range ratingThresholds {
			for k := -ulpWindow; k <= ulpWindow; k++ {
				win[ti] = append(win[ti], ulpsFrom(th, k))
			}
		}
		Enum(h, "pair", per*len(ratingThresholds), func(i int) RatingPair {
			ti, r := i/per, i%per
			return RatingPair{A: rc(win[ti][r/w]), B: rc(win[ti][r%w])}
		}, nil, checkRatingPair)
		if !h.replaying() {
			h.R.AddExact(int64(per*len(ratingThresholds)), int64(per*len(ratingThresholds)))
			h.R.Count("exhaustive: ordered pairs of floats within 160 ulps of a threshold, rated back to back", int64(per*len(ratingThresholds)))
		}
	}
	if env.Shards <= 1 {
		// every one-decimal score and threshold, followed at once by the same float with one bit flipped (all 64), and
		// the other way round: a key that drops or reuses some bits of the float answers for the other one
		var base []float64
		for k := 0; k <= 100; k++ {
			base = append(base, float64(k)/10)
		}
		base = append(base, 0.05, 3.95, 6.95, 8.95, 9.95, 1e-300, 5e-324)
		Enum(h, "pair", len(base)*64*2, func(i int) RatingPair {
			x := base[i/128]
			y := math.Float64frombits(math.Float64bits(x) ^ (1 << uint((i%128)/2)))
			if i%2 == 0 {
				return RatingPair{A: rc(x), B: rc(y)}
			}
			return RatingPair{A: rc(y), B: rc(x)}
		}, nil, checkRatingPair)
		if !h.replaying() {
			h.R.AddExact(int64(len(base)*128), int64(len(base)*128))
			h.R.Count("exhaustive: each one-decimal score and its 64 single-bit flips, rated back to back in both orders", int64(len(base)*128))
		}
	}
	n := env.Scale(100000, 300000)
	if env.Shards > 1 {
		n = env.Scale(100000, 2000000)
	}
	nearAny := func(x float64) bool {
		if x < -0.06 || x > 10.06 {
			return false
		}
		return true // every value in [-0.05,10.05] is within 0.05 of a one-decimal score
	}
	Rapid(h, "float", n, func(rt *rapid.T) RatingCase {
		var x float64
		src := rapid.IntRange(0, 4).Draw(rt, "src")
		switch src {
		case 0:
			x = math.Float64frombits(rapid.Uint64().Draw(rt, "bits"))
		case 1:
			x = rapid.Float64Range(-1, 11).Draw(rt, "range")
		case 2:
			th := ratingThresholds[rapid.IntRange(0, len(ratingThresholds)-1).Draw(rt, "th")]
			x = th + rapid.Float64Range(-0.05, 0.05).Draw(rt, "delta")
		case 3:
			th := ratingThresholds[rapid.IntRange(0, len(ratingThresholds)-1).Draw(rt, "th")]
			steps := rapid.IntRange(-1000, 1000).Draw(rt, "ulps")
			x = th
			for i := 0; i < steps; i++ {
				x = math.Nextafter(x, math.Inf(1))
			}
			for i := 0; i > steps; i-- {
				x = math.Nextafter(x, math.Inf(-1))
			}
		case 4:
			vi := rapid.IntRange(1, 3).Draw(rt, "ver")
			a, _ := gen.Object(rt, vi)
			o, err := adapt.Pkgs[vi].Build(a)
			if err == nil {
				sc := o.Scores()
				x = sc[rapid.IntRange(0, len(sc)-1).Draw(rt, "which")]
			}
		}
		c := rc(x)
		key := ""
		if !math.IsNaN(x) && nearAny(x) {
			key = fmt.Sprintf("%x", c.Bits)
		}
		w, ok := spec.Rating(x)
		if !ok {
			w = "out-of-range"
		}
		if math.IsNaN(x) {
			w = "NaN (unspecified, skipped)"
		}
		h.R.Case(fmt.Sprintf("source=%d expected=%s", src, w), key)
		if h.R.WantSample("float " + w) {
			h.R.Sample("float "+w, c)
		}
		return c
	}, checkRating)
}
