package props

import (
	"fmt"
	"runtime"
	"sync"
	"sync/atomic"
	"time"

	gocvss20 "github.com/pandatix/go-cvss/20"
	gocvss30 "github.com/pandatix/go-cvss/30"
	gocvss31 "github.com/pandatix/go-cvss/31"
	gocvss40 "github.com/pandatix/go-cvss/40"

	"verifharness/adapt"
	"verifharness/gen"
	"verifharness/spec"
)

// ---- (m) neighbours -----------------------------------------------------------------------------

// NeighbourCase: objects of one version stored BY VALUE next to each other in one array; goroutine i works on
// element i only - the even ones call the read-only methods, the odd ones keep calling Set. Nothing is shared,
// so the race detector must stay silent and every result must equal the sequential one; code that reads or
// writes a few bytes beyond its own object (a wide load that "shifts the rest out") touches the neighbour.
type NeighbourCase struct {
	Ver   int        `json:"ver"`
	Vecs  []gen.BStr `json:"vectors"` // one per array element
	Iters int        `json:"iterations"`
}

func runNeighbours(c NeighbourCase) error {
	if c.Ver < 0 || c.Ver > 3 || len(c.Vecs) < 2 || len(c.Vecs) > 16 {
		return nil
	}
	p := adapt.Pkgs[c.Ver]
	n := len(c.Vecs)
	// the array of values, and an adapter over each element's address
	var a20 [16]gocvss20.CVSS20
	var a30 [16]gocvss30.CVSS30
	var a31 [16]gocvss31.CVSS31
	var a40 [16]gocvss40.CVSS40
	objs := make([]adapt.Obj, n)
	for i := 0; i < n; i++ {
		q, err := p.Parse(string(c.Vecs[i]))
		if err != nil || q == nil {
			return nil
		}
		switch c.Ver {
		case 0:
			a20[i] = *q.(adapt.O20).P
			objs[i] = adapt.O20{P: &a20[i]}
		case 1:
			a30[i] = *q.(adapt.O30).P
			objs[i] = adapt.O30{P: &a30[i]}
		case 2:
			a31[i] = *q.(adapt.O31).P
			objs[i] = adapt.O31{P: &a31[i]}
		default:
			a40[i] = *q.(adapt.O40).P
			objs[i] = adapt.O40{P: &a40[i]}
		}
	}
	observe := func(o adapt.Obj) string {
		return o.Vector() + "|" + fbits(o.Scores()) + fbits(o.SubScores()) + "|" + o.Nomenclature()
	}
	want := make([]string, n)
	for i, o := range objs {
		want[i] = observe(o)
	}
	m := p.V.Metrics[len(p.V.Metrics)-1]
	var wg sync.WaitGroup
	errs := make([]error, n)
	var stop int32
	for i := 0; i < n; i++ {
		wg.Add(1)
		go func(i int) {
			defer wg.Done()
			defer func() {
				if r := recover(); r != nil {
					errs[i] = fmt.Errorf("goroutine %d panicked: %v", i, r)
				}
			}()
			o := objs[i]
			for k := 0; k < c.Iters && atomic.LoadInt32(&stop) == 0; k++ {
				if i%2 == 0 {
					if got := observe(o); got != want[i] {
						errs[i] = fmt.Errorf("v%s: element %d of an array of objects reads %q although only its neighbours are being written (Set on elements %d and %d); alone it reads %q", p.V.Name, i, got, i-1, i+1, want[i])
						atomic.StoreInt32(&stop, 1)
						return
					}
				} else {
					o.Set(m.Abv, m.Vals[k%len(m.Vals)])
					o.Set(p.V.Metrics[0].Abv, p.V.Metrics[0].Vals[k%len(p.V.Metrics[0].Vals)])
				}
			}
		}(i)
	}
	wg.Wait()
	for _, e := range errs {
		if e != nil {
			return e
		}
	}
	runtime.KeepAlive(&a20)
	runtime.KeepAlive(&a30)
	runtime.KeepAlive(&a31)
	runtime.KeepAlive(&a40)
	return nil
}

// ---- (l) recovered panics ---------------------------------------------------------------------

// PoisonCase: every exported method is called on a nil pointer of the version's type and the panic (if any) is
// recovered, the way a server's recovery middleware does; afterwards ordinary calls on ordinary objects must
// still return, and return what they returned before. A lock taken before the receiver is dereferenced and
// released without defer stays locked for ever after such a panic.
type PoisonCase struct {
	Ver int      `json:"ver"`
	Vec gen.BStr `json:"vector"`
}

// watchdog for calls that take microseconds: a call that has not returned after this long never will
const poisonWait = 30 * time.Second

func checkPoison(c PoisonCase) error {
	if c.Ver < 0 || c.Ver > 3 {
		return nil
	}
	p := adapt.Pkgs[c.Ver]
	vec := string(c.Vec)
	observe := func() (string, bool) {
		done := make(chan string, 1)
		go func() {
			defer func() {
				if r := recover(); r != nil {
					done <- fmt.Sprintf("panic: %v", r)
				}
			}()
			o, err := p.Parse(vec)
			if err != nil || o == nil {
				done <- "rejected"
				return
			}
			g, _ := o.Get(p.V.Metrics[0].Abv)
			q := o.Clone()
			q.Set(p.V.Metrics[0].Abv, g)
			r := ""
			if p.Rating != nil {
				r, _ = p.Rating(5)
			}
			done <- o.Vector() + "|" + fbits(o.Scores()) + fbits(o.SubScores()) + "|" + o.Nomenclature() + "|" + g + "|" + q.State() + "|" + r
		}()
		select {
		case s := <-done:
			return s, true
		case <-time.After(poisonWait):
			return "", false
		}
	}
	before, ok := observe()
	if !ok {
		return nil // the machine is not making progress at all: says nothing about the library
	}
	// calls on a nil receiver, each recovered
	var nils []func()
	switch c.Ver {
	case 0:
		var z *gocvss20.CVSS20
		nils = []func(){func() { z.Vector() }, func() { z.Get("AV") }, func() { z.Set("AV", "N") }, func() { z.Set("ZZ", "N") }, func() { z.BaseScore() }, func() { z.TemporalScore() }, func() { z.EnvironmentalScore() }, func() { z.Impact() }, func() { z.Exploitability() }}
	case 1:
		var z *gocvss30.CVSS30
		nils = []func(){func() { z.Vector() }, func() { z.Get("AV") }, func() { z.Set("AV", "N") }, func() { z.Set("ZZ", "N") }, func() { z.BaseScore() }, func() { z.TemporalScore() }, func() { z.EnvironmentalScore() }, func() { z.Impact() }, func() { z.Exploitability() }}
	case 2:
		var z *gocvss31.CVSS31
		nils = []func(){func() { z.Vector() }, func() { z.Get("AV") }, func() { z.Set("AV", "N") }, func() { z.Set("ZZ", "N") }, func() { z.BaseScore() }, func() { z.TemporalScore() }, func() { z.EnvironmentalScore() }, func() { z.Impact() }, func() { z.Exploitability() }}
	default:
		var z *gocvss40.CVSS40
		nils = []func(){func() { z.Vector() }, func() { z.Get("AV") }, func() { z.Set("AV", "N") }, func() { z.Set("ZZ", "N") }, func() { z.Score() }, func() { z.Nomenclature() }}
	}
	for _, f := range nils {
		func() {
			defer func() { recover() }()
			f()
		}()
	}
	after, ok := observe()
	if !ok {
		return fmt.Errorf("v%s: after calls on a nil receiver whose panics were recovered, ordinary calls on %q (ParseVector, Get, Set, Vector, scores, Rating) have not returned for %v; before, they returned at once", p.V.Name, vec, poisonWait)
	}
	if after != before {
		return fmt.Errorf("v%s: ordinary calls on %q give %q before and %q after calls on a nil receiver whose panics were recovered", p.V.Name, vec, before, after)
	}
	return nil
}

var _ = spec.V2
