package props

import (
	"fmt"
	"math"
	"runtime"
	"sort"
	"sync"
	"sync/atomic"
	"time"

	gocvss20 "github.com/pandatix/go-cvss/20"
	gocvss30 "github.com/pandatix/go-cvss/30"
	gocvss31 "github.com/pandatix/go-cvss/31"
	gocvss40 "github.com/pandatix/go-cvss/40"

	"verifharness/adapt"
	"verifharness/gen"
	"verifharness/spec"
)

// ---- (m) neighbours -----------------------------------------------------------------------------

// NeighbourCase: objects of one version stored BY VALUE next to each other in one array; goroutine i works on
// element i only - the even ones call the read-only methods, the odd ones keep calling Set. Nothing is shared,
// so the race detector must stay silent and every result must equal the sequential one; code that reads or
// writes a few bytes beyond its own object (a wide load that "shifts the rest out") touches the neighbour.
type NeighbourCase struct {
	Ver   int        `json:"ver"`
	Vecs  []gen.BStr `json:"vectors"` // one per array element
	Iters int        `json:"iterations"`
}

func runNeighbours(c NeighbourCase) error {
	if c.Ver < 0 || c.Ver > 3 || len(c.Vecs) < 2 || len(c.Vecs) > 16 {
		return nil
	}
	p := adapt.Pkgs[c.Ver]
	n := len(c.Vecs)
	// the array of values, and an adapter over each element's address
	var a20 [16]gocvss20.CVSS20
	var a30 [16]gocvss30.CVSS30
	var a31 [16]gocvss31.CVSS31
	var a40 [16]gocvss40.CVSS40
	objs := make([]adapt.Obj, n)
	for i := 0; i < n; i++ {
		q, err := p.Parse(string(c.Vecs[i]))
		if err != nil || q == nil {
			return nil
		}
		switch c.Ver {
		case 0:
			a20[i] = *q.(adapt.O20).P
			objs[i] = adapt.O20{P: &a20[i]}
		case 1:
			a30[i] = *q.(adapt.O30).P
			objs[i] = adapt.O30{P: &a30[i]}
		case 2:
			a31[i] = *q.(adapt.O31).P
			objs[i] = adapt.O31{P: &a31[i]}
		default:
			a40[i] = *q.(adapt.O40).P
			objs[i] = adapt.O40{P: &a40[i]}
		}
	}
	observe := func(o adapt.Obj) string {
		return o.Vector() + "|" + fbits(o.Scores()) + fbits(o.SubScores()) + "|" + o.Nomenclature()
	}
	want := make([]string, n)
	for i, o := range objs {
		want[i] = observe(o)
	}
	m := p.V.Metrics[len(p.V.Metrics)-1]
	var wg sync.WaitGroup
	errs := make([]error, n)
	var stop int32
	for i := 0; i < n; i++ {
		wg.Add(1)
		go func(i int) {
			defer wg.Done()
			defer func() {
				if r := recover(); r != nil {
					errs[i] = fmt.Errorf("goroutine %d panicked: %v", i, r)
				}
			}()
			o := objs[i]
			for k := 0; k < c.Iters && atomic.LoadInt32(&stop) == 0; k++ {
				if i%2 == 0 {
					if got := observe(o); got != want[i] {
						errs[i] = fmt.Errorf("v%s: element %d of an array of objects reads %q although only its neighbours are being written (Set on elements %d and %d); alone it reads %q", p.V.Name, i, got, i-1, i+1, want[i])
						atomic.StoreInt32(&stop, 1)
						return
					}
				} else {
					o.Set(m.Abv, m.Vals[k%len(m.Vals)])
					o.Set(p.V.Metrics[0].Abv, p.V.Metrics[0].Vals[k%len(p.V.Metrics[0].Vals)])
				}
			}
		}(i)
	}
	wg.Wait()
	for _, e := range errs {
		if e != nil {
			return e
		}
	}
	runtime.KeepAlive(&a20)
	runtime.KeepAlive(&a30)
	runtime.KeepAlive(&a31)
	runtime.KeepAlive(&a40)
	return nil
}

// ---- (l) recovered panics ---------------------------------------------------------------------

// PoisonCase: every exported method is called on a nil pointer of the version's type and the panic (if any) is
// recovered, the way a server's recovery middleware does; afterwards ordinary calls on ordinary objects must
// still return, and return what they returned before. A lock taken before the receiver is dereferenced and
// released without defer stays locked for ever after such a panic.
type PoisonCase struct {
	Ver int      `json:"ver"`
	Vec gen.BStr `json:"vector"`
}

// watchdog for calls that take microseconds: a call that has not returned after this long never will
const poisonWait = 30 * time.Second

func checkPoison(c PoisonCase) error {
	if c.Ver < 0 || c.Ver > 3 {
		return nil
	}
	p := adapt.Pkgs[c.Ver]
	vec := string(c.Vec)
	observe := func() (string, bool) {
		done := make(chan string, 1)
		go func() {
			defer func() {
				if r := recover(); r != nil {
					done <- fmt.Sprintf("panic: %v", r)
				}
			}()
			o, err := p.Parse(vec)
			if err != nil || o == nil {
				done <- "rejected"
				return
			}
			g, _ := o.Get(p.V.Metrics[0].Abv)
			q := o.Clone()
			q.Set(p.V.Metrics[0].Abv, g)
			r := ""
			if p.Rating != nil {
				r, _ = p.Rating(5)
			}
			done <- o.Vector() + "|" + fbits(o.Scores()) + fbits(o.SubScores()) + "|" + o.Nomenclature() + "|" + g + "|" + q.State() + "|" + r
		}()
		select {
		case s := <-done:
			return s, true
		case <-time.After(poisonWait):
			return "", false
		}
	}
	before, ok := observe()
	if !ok {
		return nil // the machine is not making progress at all: says nothing about the library
	}
	// calls on a nil receiver, each recovered
	var nils []func()
	switch c.Ver {
	case 0:
		var z *gocvss20.CVSS20
		nils = []func(){func() { z.Vector() }, func() { z.Get("AV") }, func() { z.Set("AV", "N") }, func() { z.Set("ZZ", "N") }, func() { z.BaseScore() }, func() { z.TemporalScore() }, func() { z.EnvironmentalScore() }, func() { z.Impact() }, func() { z.Exploitability() }}
	case 1:
		var z *gocvss30.CVSS30
		nils = []func(){func() { z.Vector() }, func() { z.Get("AV") }, func() { z.Set("AV", "N") }, func() { z.Set("ZZ", "N") }, func() { z.BaseScore() }, func() { z.TemporalScore() }, func() { z.EnvironmentalScore() }, func() { z.Impact() }, func() { z.Exploitability() }}
	case 2:
		var z *gocvss31.CVSS31
		nils = []func(){func() { z.Vector() }, func() { z.Get("AV") }, func() { z.Set("AV", "N") }, func() { z.Set("ZZ", "N") }, func() { z.BaseScore() }, func() { z.TemporalScore() }, func() { z.EnvironmentalScore() }, func() { z.Impact() }, func() { z.Exploitability() }}
	default:
		var z *gocvss40.CVSS40
		nils = []func(){func() { z.Vector() }, func() { z.Get("AV") }, func() { z.Set("AV", "N") }, func() { z.Set("ZZ", "N") }, func() { z.Score() }, func() { z.Nomenclature() }}
	}
	for _, f := range nils {
		func() {
			defer func() { recover() }()
			f()
		}()
	}
	after, ok := observe()
	if !ok {
		return fmt.Errorf("v%s: after calls on a nil receiver whose panics were recovered, ordinary calls on %q (ParseVector, Get, Set, Vector, scores, Rating) have not returned for %v; before, they returned at once", p.V.Name, vec, poisonWait)
	}
	if after != before {
		return fmt.Errorf("v%s: ordinary calls on %q give %q before and %q after calls on a nil receiver whose panics were recovered", p.V.Name, vec, before, after)
	}
	return nil
}

var _ = spec.V2

// ---- (n) score streams --------------------------------------------------------------------------

// StreamCase14: G goroutines each walk, in their own order and several times, over a pool of N different objects
// of one version and call the scoring methods; every result is compared with the one computed sequentially
// beforehand. A result cache with more than one word per line that is updated without excluding readers is
// exact sequentially and race-detector-clean (all accesses atomic), and wrong only when one goroutine reads a
// line while two others replace it - which needs many different vectors in flight, not a few hot ones.
type ScoreStream struct {
	Ver    int `json:"ver"`
	N      int `json:"pool"`
	From   int `json:"from"` // first index into the version's prefix space (spread by a stride)
	G      int `json:"goroutines"`
	Rounds int `json:"rounds"`
}

func runScoreStream(c ScoreStream) error {
	if c.Ver < 0 || c.Ver > 3 || c.N < 1 || c.G < 1 {
		return nil
	}
	p := adapt.Pkgs[c.Ver]
	vecs := distinctVectors(c.Ver, c.From, c.N)
	objs := make([]adapt.Obj, 0, len(vecs))
	for _, s := range vecs {
		if o, err := p.Parse(s); err == nil && o != nil {
			objs = append(objs, o)
		}
	}
	if len(objs) == 0 {
		return nil
	}
	want := make([]string, len(objs))
	for i, o := range objs {
		want[i] = fbits(o.Scores()) + fbits(o.SubScores())
	}
	// a second sequential pass: the answers must already be stable
	for i, o := range objs {
		if got := fbits(o.Scores()) + fbits(o.SubScores()); got != want[i] {
			return fmt.Errorf("v%s scores of %s differ between two sequential passes over %d objects: %s then %s", p.V.Name, o.Vector(), len(objs), want[i], got)
		}
	}
	var wg sync.WaitGroup
	errs := make([]error, c.G)
	var stop int32
	for g := 0; g < c.G; g++ {
		wg.Add(1)
		go func(g int) {
			defer wg.Done()
			defer func() {
				if r := recover(); r != nil {
					errs[g] = fmt.Errorf("goroutine %d panicked: %v", g, r)
				}
			}()
			step := nextPrime(7 + 2*g)
			for r := 0; r < c.Rounds; r++ {
				for k := 0; k < len(objs) && atomic.LoadInt32(&stop) == 0; k++ {
					i := (k*step + g*131) % len(objs)
					o := objs[i]
					if got := fbits(o.Scores()) + fbits(o.SubScores()); got != want[i] {
						errs[g] = fmt.Errorf("v%s scores of %s = %s while %d goroutines score a pool of %d different objects; sequentially %s", p.V.Name, o.Vector(), got, c.G, len(objs), want[i])
						atomic.StoreInt32(&stop, 1)
						return
					}
				}
			}
		}(g)
	}
	wg.Wait()
	for _, e := range errs {
		if e != nil {
			return e
		}
	}
	return nil
}

// ---- (o) one call repeated 2^24 times ------------------------------------------------------------

// RepeatCase: the same call on the same object, 2^24 + 16 times in all (8 goroutines), every result compared.
// A hit counter packed next to a cached result carries into the result when it overflows.
type RepeatCase struct {
	Ver   int      `json:"ver"`
	Kind  string   `json:"kind"` // scores | vector | get | rating
	Vec   gen.BStr `json:"vector"`
	Total int64    `json:"calls"`
}

func runRepeat(c RepeatCase) error {
	if c.Ver < 0 || c.Ver > 3 || c.Total < 1 || c.Total > 1<<33 {
		return nil
	}
	p := adapt.Pkgs[c.Ver]
	if c.Kind == "parse-empty" {
		return runRepeatParse(c)
	}
	o, err := p.Parse(string(c.Vec))
	if err != nil || o == nil {
		return nil
	}
	abv := p.V.Metrics[len(p.V.Metrics)-1].Abv
	var call func() string
	switch c.Kind {
	case "scores":
		// compared as bits: formatting 2^24 results would dominate
		ref := o.Scores()
		call = func() string {
			for i, x := range o.Scores() {
				if math.Float64bits(x) != math.Float64bits(ref[i]) {
					return fbits(o.Scores())
				}
			}
			return ""
		}
	case "vector":
		call = func() string { return o.Vector() }
	case "get":
		call = func() string { g, _ := o.Get(abv); return g }
	case "rating":
		if p.Rating == nil {
			return nil
		}
		call = func() string { r, _ := p.Rating(5.5); return r }
	default:
		return nil
	}
	want := call()
	const G = 8
	var wg sync.WaitGroup
	errs := make([]error, G)
	var stop int32
	for g := 0; g < G; g++ {
		wg.Add(1)
		go func(g int) {
			defer wg.Done()
			for k := int64(0); k < c.Total/G+2 && atomic.LoadInt32(&stop) == 0; k++ {
				if got := call(); got != want {
					errs[g] = fmt.Errorf("v%s %s on %s returns %q at about call %d of the same call on the same object; the first call returned %q", p.V.Name, c.Kind, string(c.Vec), got, k*G, want)
					atomic.StoreInt32(&stop, 1)
					return
				}
			}
		}(g)
	}
	wg.Wait()
	for _, e := range errs {
		if e != nil {
			return e
		}
	}
	return nil
}

// runRepeatParse: ParseVector("") - the cheapest call that goes through the parser's entry - Total times on 8
// goroutines, then the vector is round-tripped: a turn counter kept in 31 or 32 bits (a ring of buffers handed out in
// turn) wraps after 2^31 / 2^32 calls.
func runRepeatParse(c RepeatCase) error {
	p := adapt.Pkgs[c.Ver]
	const G = 8
	var wg sync.WaitGroup
	var bad atomic.Int64
	for g := 0; g < G; g++ {
		wg.Add(1)
		go func() {
			defer wg.Done()
			defer func() {
				if r := recover(); r != nil {
					bad.Add(1)
				}
			}()
			for k := int64(0); k < c.Total/G+2; k++ {
				if o, err := p.Parse(""); err == nil || o != nil {
					bad.Add(1)
					return
				}
			}
		}()
	}
	wg.Wait()
	if bad.Load() > 0 {
		return fmt.Errorf("v%s ParseVector(\"\") panicked or succeeded during %d repetitions", p.V.Name, c.Total)
	}
	for k := 0; k < 200; k++ {
		o, err, pan := p.SafeParse(string(c.Vec))
		if pan != nil || err != nil || o == nil {
			return fmt.Errorf("v%s ParseVector(%q) fails after %d calls of ParseVector(\"\"): err=%v panic=%v", p.V.Name, string(c.Vec), c.Total, err, pan)
		}
		if q, err2, pan2 := p.SafeParse(o.Vector()); pan2 != nil || err2 != nil || q == nil || !q.Eq(o) {
			return fmt.Errorf("v%s: after %d calls of ParseVector(\"\") the round trip of %q fails: err=%v panic=%v", p.V.Name, c.Total, string(c.Vec), err2, pan2)
		}
	}
	return nil
}

// ---- shared error values ----------------------------------------------------------------------

// sharedErrors: one error value of each typed kind, read by 8 goroutines at the same time (Error(), errors.As):
// an error value is a shared read-only object like any other.
func sharedErrors() error {
	for _, p := range adapt.Pkgs {
		var errs []error
		o := p.Zero()
		_, e1 := o.Get("ZZ")
		e2 := o.Set("ZZ", "N")
		_, e3 := p.Parse(p.V.Header + "ZZ:N")
		_, e4 := p.Parse(p.V.Header)
		errs = append(errs, e1, e2, e3, e4)
		for _, e := range errs {
			if e == nil {
				continue
			}
			e := e
			want := e.Error()
			var wg sync.WaitGroup
			bad := make([]string, 8)
			for g := 0; g < 8; g++ {
				wg.Add(1)
				go func(g int) {
					defer wg.Done()
					for k := 0; k < 200; k++ {
						if got := e.Error(); got != want {
							bad[g] = got
							return
						}
						p.AsInvalidMetric(e)
					}
				}(g)
			}
			wg.Wait()
			for _, b := range bad {
				if b != "" {
					return fmt.Errorf("v%s: an error value read by 8 goroutines at the same time says %q to one of them and %q to the others", p.V.Name, b, want)
				}
			}
		}
	}
	return nil
}

// firstScoreVectors: one v4.0 vector per MacroVector (the first effective class of each), for cold starts whose
// very first Score() is for that MacroVector.
func firstScoreVectors() []string {
	seen := map[string]bool{}
	var out, mvs []string
	n := spec.V4Classes()
	for i := 0; i < n && len(out) < 270; i += 7 {
		e, _ := spec.V4Decode(i)
		w := spec.ScoreV4(e)
		if w.Zero || seen[w.MV] {
			continue
		}
		seen[w.MV] = true
		out = append(out, spec.Canon(spec.V4, spec.AssignmentFromEff4(e)))
		mvs = append(mvs, w.MV)
	}
	// sorted by MacroVector, so that the first is 000000 and the last the highest one found
	sort.Sort(byMV{out, mvs})
	return out
}

var _ = runtime.NumCPU
var _ = time.Second

type byMV struct{ vecs, mvs []string }

func (b byMV) Len() int           { return len(b.vecs) }
func (b byMV) Less(i, j int) bool { return b.mvs[i] < b.mvs[j] }
func (b byMV) Swap(i, j int) {
	b.vecs[i], b.vecs[j] = b.vecs[j], b.vecs[i]
	b.mvs[i], b.mvs[j] = b.mvs[j], b.mvs[i]
}

// ---- (p) hot pairs ---------------------------------------------------------------------------------

// HotPair: twice as many goroutines as Ps, each with its OWN copy of one of two objects, call one scoring method in
// the tightest possible loop and compare the bits of the result. State that the package keeps for "the last object
// scored" is then rewritten back and forth between two values at the highest possible rate, while readers of
// both are in flight: a multi-word entry validated by its key instead of a version number shows within a second.
type HotPair struct {
	Ver   int      `json:"ver"`
	VecA  gen.BStr `json:"a"`
	VecB  gen.BStr `json:"b"`
	Iters int      `json:"iterations_per_goroutine"`
}

func runHotPair(c HotPair) error {
	if c.Ver < 0 || c.Ver > 3 || c.Iters < 1 || c.Iters > 1<<26 {
		return nil
	}
	p := adapt.Pkgs[c.Ver]
	oa, err := p.Parse(string(c.VecA))
	if err != nil || oa == nil {
		return nil
	}
	ob, err := p.Parse(string(c.VecB))
	if err != nil || ob == nil {
		return nil
	}
	nfn := 3
	if c.Ver == 3 {
		nfn = 1
	}
	n := 2 * runtime.GOMAXPROCS(0)
	var wg sync.WaitGroup
	errs := make([]error, n)
	var stop int32
	for g := 0; g < n; g++ {
		wg.Add(1)
		go func(g int) {
			defer wg.Done()
			defer func() {
				if r := recover(); r != nil {
					errs[g] = fmt.Errorf("goroutine %d panicked: %v", g, r)
				}
			}()
			src := oa
			if g%2 == 1 {
				src = ob
			}
			o := src.Clone()
			fn := (g / 2) % nfn
			want := math.Float64bits(o.Fn(fn))
			for k := 0; k < c.Iters && atomic.LoadInt32(&stop) == 0; k++ {
				if got := o.Fn(fn); math.Float64bits(got) != want {
					errs[g] = fmt.Errorf("v%s scoring method %d on a private copy of %s returns %v at call %d while %d goroutines score copies of two objects; alone it returns %v", p.V.Name, fn, src.Vector(), got, k, n, math.Float64frombits(want))
					atomic.StoreInt32(&stop, 1)
					return
				}
			}
		}(g)
	}
	wg.Wait()
	for _, e := range errs {
		if e != nil {
			return e
		}
	}
	return nil
}
