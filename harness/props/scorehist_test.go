package props

import (
	"fmt"
	"math"

	"pgregory.net/rapid"

	"verifharness/adapt"
	"verifharness/gen"
	"verifharness/spec"
)

// Score histories: one object, a generated sequence of Set calls, whole-object assignments (*o = *fresh) and calls of SINGLE scoring
// methods in any order (BaseScore, TemporalScore, EnvironmentalScore, Impact, Exploitability; v4.0:
// Score), every returned number compared with the oracle evaluated on the model of the object.
// The class walks call the methods in one fixed order on every object; state kept by the package
// between calls (a memo that one method fills and another one re-labels) needs a particular order
// of different methods, on objects that differ in particular metrics.

type ScoreStep struct {
	Set  *gen.Op `json:"set,omitempty"`
	// Assign: the object is overwritten as a whole (*o = *fresh) with a freshly parsed valid vector - no Set is
	// involved, so a result remembered per address (and dropped by Set) is now stale
	Assign string `json:"assign,omitempty"`
	Call int     `json:"call"` // index of the scoring method (when Set is nil)
}

type ScoreHist struct {
	Ver   int         `json:"ver"`
	Start string      `json:"start"`
	Steps []ScoreStep `json:"steps"`
}

var fnNames = []string{"BaseScore", "TemporalScore", "EnvironmentalScore", "Impact", "Exploitability"}

// oracleFn: the conforming tenths (scores) or the sub-score value of method i on assignment a.
func oracleFn(vi int, a spec.Assignment, i int) (tenths []int, sub float64) {
	switch vi {
	case 0:
		w := v2O().Score(a)
		switch i {
		case 0:
			return w.Base, 0
		case 1:
			return w.Temporal, 0
		case 2:
			return w.Env, 0
		case 3:
			return nil, w.Impact
		}
		return nil, w.Expl
	case 1, 2:
		w := v3Oracles[vi].Score(a)
		switch i {
		case 0:
			return []int{int(w.Base)}, 0
		case 1:
			return []int{int(w.Temporal)}, 0
		case 2:
			return []int{int(w.Env)}, 0
		case 3:
			return nil, w.Impact
		}
		return nil, w.Expl
	}
	return []int{spec.ScoreV4(spec.EffectiveV4(a)).K}, 0
}

func checkScoreHist(c ScoreHist) error {
	if c.Ver < 0 || c.Ver > 3 {
		return nil
	}
	p := adapt.Pkgs[c.Ver]
	o, model, err := startObject(p, c.Start)
	if err == errSkip {
		return nil
	}
	if err != nil {
		return err
	}
	nfn := 5
	if c.Ver == 3 {
		nfn = 1
	}
	for k, st := range c.Steps {
		if st.Assign != "" {
			// the source is parsed at odd steps and built by Set calls on a zero object at even steps (no
			// ParseVector between the object's own parse and the assignment: "the object parsed last")
			var f adapt.Obj
			m2, okv := spec.Parse(p.V, st.Assign)
			if !okv {
				return fmt.Errorf("harness: assigned vector %q is not valid", st.Assign)
			}
			if k%2 == 1 {
				var err error
				if f, _, err = startObject(p, st.Assign); err != nil {
					return nil // C01 owns a valid vector that does not parse
				}
			} else if b, err := p.Build(m2); err != nil {
				return nil // C07 owns a legal Set that fails
			} else {
				f = b
			}
			o.Assign(f)
			model = m2
			continue
		}
		if st.Set != nil {
			abv, val := string(st.Set.Abv), string(st.Set.Val)
			ok := modelSet(p.V, model, abv, val)
			if err := o.Set(abv, val); (err == nil) != ok {
				return nil // C07/C09 own this
			}
			continue
		}
		i := ((st.Call % nfn) + nfn) % nfn
		var got float64
		if e := adapt.Safe(func() { got = o.Fn(i) }); e != nil {
			return fmt.Errorf("step %d: v%s %s on %s: %v", k, p.V.Name, fnNames[i], spec.Canon(p.V, model), e)
		}
		tenthsWant, sub := oracleFn(c.Ver, model, i)
		name := fnNames[i]
		if c.Ver == 3 {
			name = "Score"
		}
		if tenthsWant == nil {
			if math.Abs(got-sub) > 1e-9 {
				return fmt.Errorf("step %d: v%s %s of %s = %v, want %v (after the %d earlier calls on this object)", k, p.V.Name, name, spec.Canon(p.V, model), got, sub, k)
			}
			continue
		}
		kk, ok := tenths(got)
		if !ok || !spec.InSet(tenthsWant, kk) {
			return fmt.Errorf("step %d: v%s %s of %s = %v, the specification gives %v tenths (after the %d earlier calls on this object)", k, p.V.Name, name, spec.Canon(p.V, model), got, tenthsWant, k)
		}
	}
	return nil
}

func drawScoreHist(rt *rapid.T, vi int) ScoreHist {
	c := ScoreHist{Ver: vi}
	if rapid.IntRange(0, 3).Draw(rt, "zero") != 0 {
		c.Start = gen.ValidVector(rt, vi).S
	}
	v := spec.Versions[vi]
	n := rapid.IntRange(2, 24).Draw(rt, "steps")
	for k := 0; k < n; k++ {
		if k > 0 && rapid.IntRange(0, 7).Draw(rt, "assign") == 0 {
			c.Steps = append(c.Steps, ScoreStep{Assign: gen.ValidVector(rt, vi).S})
		} else if rapid.IntRange(0, 2).Draw(rt, "what") == 0 {
			// a legal Set, biased to the temporal / environmental metrics (the base metrics stay: the
			// interesting neighbours share their base part)
			var m spec.Metric
			if rapid.IntRange(0, 3).Draw(rt, "anymetric") == 0 {
				m = v.Metrics[rapid.IntRange(0, len(v.Metrics)-1).Draw(rt, "m")]
			} else {
				opt := v.Optional()
				m = opt[rapid.IntRange(0, len(opt)-1).Draw(rt, "mo")]
			}
			op := gen.Op{Kind: "set", Abv: gen.BStr(m.Abv), Val: gen.BStr(m.Vals[rapid.IntRange(0, len(m.Vals)-1).Draw(rt, "v")])}
			c.Steps = append(c.Steps, ScoreStep{Set: &op})
		} else {
			c.Steps = append(c.Steps, ScoreStep{Call: rapid.IntRange(0, 4).Draw(rt, "fn")})
		}
	}
	return c
}

// runScoreHists drives the score histories of one version inside a score property.
func runScoreHists(h *H, vi int, n int) {
	Rapid(h, "score-history", n, func(rt *rapid.T) ScoreHist {
		c := drawScoreHist(rt, vi)
		calls := 0
		for _, s := range c.Steps {
			if s.Set == nil && s.Assign == "" {
				calls++
			}
		}
		h.R.Case(fmt.Sprintf("score history v%s (single scoring methods in generated order between Set calls)", spec.Versions[vi].Name), fmt.Sprintf("SH%v|%s|%v", vi, c.Start, stepsKey(c.Steps)))
		h.R.Count("single scoring-method calls inside score histories", int64(calls))
		if h.R.WantSample("score-history") {
			h.R.Sample("score-history", c)
		}
		return c
	}, checkScoreHist)
}

func stepsKey(st []ScoreStep) string {
	s := ""
	for _, x := range st {
		if x.Assign != "" {
			s += "<-" + x.Assign + ";"
		} else if x.Set != nil {
			s += string(x.Set.Abv) + "=" + string(x.Set.Val) + ";"
		} else {
			s += fmt.Sprintf("f%d;", x.Call)
		}
	}
	return s
}
