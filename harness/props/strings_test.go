package props

import (
	"fmt"
	"testing"

	"pgregory.net/rapid"

	"verifharness/adapt"
	"verifharness/gen"
	"verifharness/spec"
)

// ---------------------------------------------------------------- C01

// checkGrammar is the single-case check of C01: every parser against the
// reference recogniser, result shape, no panic.
func checkGrammar(c gen.Str) error {
	s := string(c.S)
	for _, p := range adapt.Pkgs {
		o, err, pan := p.SafeParse(s)
		if pan != nil {
			return fmt.Errorf("v%s ParseVector(%q) panicked: %v", p.V.Name, s, pan)
		}
		if (o == nil) == (err == nil) {
			return fmt.Errorf("v%s ParseVector(%q) returned object-nil=%v together with err=%v", p.V.Name, s, o == nil, err)
		}
		want := spec.Member(p.V, s)
		if (err == nil) != want {
			if want {
				return fmt.Errorf("v%s ParseVector rejects the well-formed vector %q: %v", p.V.Name, s, err)
			}
			return fmt.Errorf("v%s ParseVector accepts %q, which is not a well-formed v%s vector", p.V.Name, s, p.V.Name)
		}
	}
	return nil
}

var oneEditMemo []gen.Str

// oneEditCases: every string at one structural edit from a representative vector.
func oneEditCases() []gen.Str {
	if oneEditMemo != nil {
		return oneEditMemo
	}
	for _, r := range gen.Representatives() {
		r := r
		oneEditMemo = append(oneEditMemo, gen.Str{S: gen.BStr(r.S), Source: "valid"})
		for _, s := range gen.OneEditNeighbourhood(r.Ver, r.S) {
			oneEditMemo = append(oneEditMemo, gen.Str{S: gen.BStr(s), Source: "one-edit"})
		}
		for _, s := range gen.PoolSubstitutions(r.Ver, r.S) {
			oneEditMemo = append(oneEditMemo, gen.Str{S: gen.BStr(s), Source: "one-edit"})
		}
		if r.Layout == "base" || r.Layout == "spec-order" || r.Layout == "base+temporal+env" {
			for _, s := range gen.Repeats(r.Ver, r.S) {
				oneEditMemo = append(oneEditMemo, gen.Str{S: gen.BStr(s), Source: "subsequence"})
			}
		}
	}
	// every order-preserving subsequence of the v2 metric list; every subset of the base metrics of v3/v4
	for _, s := range gen.Subsequences() {
		oneEditMemo = append(oneEditMemo, gen.Str{S: gen.BStr(s), Source: "subsequence"})
	}
	return oneEditMemo
}

func memberOfAny(s string) (int, bool) {
	for i, v := range spec.Versions {
		if spec.Member(v, s) {
			return i, true
		}
	}
	return -1, false
}

func recordString(h *H, c gen.Str) {
	s := string(c.S)
	vi, member := memberOfAny(s)
	key := ""
	class := "source=" + c.Source
	if member {
		class += " in-language-of=" + spec.Versions[vi].Name
		key = s
	} else {
		class += " in-no-language"
		if c.Source == "mutant" && len(c.Ops) == 1 {
			key = s // boundary case: one edit away from a valid vector
		}
	}
	h.R.Case(class, key)
	if c.Source == "mutant" && len(c.Ops) == 1 {
		if member {
			h.R.Count("one-edit op="+c.Ops[0]+" still valid", 1)
		} else {
			h.R.Count("one-edit op="+c.Ops[0]+" invalid", 1)
		}
	}
	if h.R.WantSample(class) {
		h.R.Sample(class, c)
	}
	if member {
		h.R.Count("oracle-accepted strings", 1)
	}
}

func TestC01(t *testing.T) {
	h := start(t, "C01", "strings from four generators (30% valid by construction, 50% 1-3 structured edits of a valid vector, 10% token soup of all versions, 10% raw bytes), each offered to all four parsers; non-trivial = the string is in some version's language, or it is a one-edit mutant of a valid vector that the reference recogniser rejects; distinct by string")
	h.R.Assume("oracle: split-based reference recognisers written from the grammar of C01 (spec/grammar.go), cross-checked against anchored regular expressions in spec_test.go")
	n := env.Scale(250000, 400000)
	if env.Shards > 1 {
		n = env.Scale(250000, 1500000)
	}
	if env.Shards <= 1 {
		// complete one-edit neighbourhood of a fixed set of representative vectors
		nb := oneEditCases()
		Enum(h, "string", len(nb), func(i int) gen.Str { return nb[i] }, nil, checkGrammar)
		if !h.replaying() {
			valid := 0
			for _, c := range nb {
				key := string(c.S) // every one-edit string is non-trivial by the rule (member, or one-edit reject)
				if _, ok := memberOfAny(key); ok {
					valid++
				}
				if c.Source == "subsequence" {
					if _, ok := memberOfAny(key); !ok {
						key = "" // several metrics missing: not a one-edit boundary case
					}
					h.R.Case("metric subsequences / base subsets (exhaustive)", key)
					continue
				}
				h.R.Case("one-edit neighbourhood of the representative vectors (exhaustive)", key)
			}
			h.R.Count("one-edit neighbourhood and subsequences: strings still well-formed", int64(valid))
			h.R.Sample("one-edit", nb[len(nb)/2])
		}
	}
	if env.Shards <= 1 {
		// membership must also hold at particular call numbers after the package's pools have been purged
		// (recycled parser state with a generation counter or fill level that wraps at 2^8 / 2^16); this
		// binary is built without the race detector, under which sync.Pool drops entries at random
		ec := exactCountCases()
		if !doReplay(h, "exact-count", checkExactCount) {
			for _, c := range ec {
				h.R.Pending("exact-count", c)
				if err := safely(checkExactCount, c); err != nil {
					h.fail("exact-count", c, err)
				}
			}
			h.R.AddExact(int64(len(ec)), int64(len(ec)))
			h.R.Count("exact-count cases (pools purged, N in {255,256,65535,65536} warm-up parses, then probes)", int64(len(ec)))
		}
	}
	if env.Shards <= 1 {
		// inputs that lie at the edge of accessible memory, and inputs longer than 4 GiB
		gc := guardCases()
		if !doReplay(h, "guarded", checkGuarded) {
			for _, c := range gc {
				h.R.Pending("guarded", c)
				if err := safely(checkGuarded, c); err != nil {
					h.fail("guarded", c, err)
				}
			}
			h.R.AddExact(int64(len(gc)), int64(len(gc)))
			h.R.Count("strings parsed from a copy flush with an inaccessible page (every prefix of the representative vectors at the page end; suffixes at the page start)", int64(len(gc)))
			h.R.Sample("guarded", gc[len(gc)/2])
		}
		hc := hugeCases()
		if !doReplay(h, "huge", checkHuge) {
			for _, c := range hc {
				h.R.Pending("huge", c)
				if err := safely(checkHuge, c); err != nil {
					h.fail("huge", c, err)
				}
			}
			h.R.AddExact(int64(len(hc)), int64(len(hc)))
			h.R.Count("inputs of 2 GiB / 4 GiB and a few bytes (untouched zero pages behind a valid vector; 64-bit processes only)", int64(len(hc)))
			h.R.Sample("huge", hc[0])
		}
	}
	Rapid(h, "string", n, func(rt *rapid.T) gen.Str {
		c := gen.AnyString(rt)
		recordString(h, c)
		return c
	}, checkGrammar)
	if !h.replaying() {
		acc := h.R.ClassCount("oracle-accepted strings")
		if acc*20 < int64(n) {
			h.R.Inconclusive("only %d of %d generated strings are in a language (<5%%)", acc, n)
		}
	}
}

// ---------------------------------------------------------------- C13

func acceptors(s string) ([]string, error) {
	var acc []string
	for _, p := range adapt.Pkgs {
		_, err, pan := p.SafeParse(s)
		if pan != nil {
			return nil, fmt.Errorf("v%s ParseVector(%q) panicked: %v", p.V.Name, s, pan)
		}
		if err == nil {
			acc = append(acc, p.V.Name)
		}
	}
	return acc, nil
}

func checkOneVersion(c gen.Str) error {
	acc, err := acceptors(string(c.S))
	if err != nil {
		return err
	}
	if len(acc) > 1 {
		return fmt.Errorf("%q is accepted by the parsers of %v", string(c.S), acc)
	}
	return nil
}

// VecOut is an object (as an assignment) whose Vector() output is offered to every parser.
type VecOut struct {
	Ver int               `json:"ver"`
	A   map[string]string `json:"assignment"`
}

func checkVectorOwner(c VecOut) error {
	p := adapt.Pkgs[c.Ver]
	o, err := p.Build(c.A)
	if err != nil {
		return err
	}
	// the string just produced, under every other version's header, offered to the producing package straight
	// away (a shortcut that recognises "what Vector() has just written" must still look at the header)
	for _, q := range adapt.Pkgs {
		if q.ID == p.ID {
			continue
		}
		body := o.Vector()[len(p.V.Header):]
		foreign := q.V.Header + body
		if spec.Member(p.V, foreign) {
			continue
		}
		if obj, err, pan := p.SafeParse(foreign); pan != nil || err == nil || obj != nil {
			return fmt.Errorf("v%s ParseVector accepts %q (its own Vector() output under the v%s header) when offered right after that Vector() call: err=%v panic=%v", p.V.Name, foreign, q.V.Name, err, pan)
		}
	}
	s := o.Vector()
	acc, err := acceptors(s)
	if err != nil {
		return err
	}
	if len(acc) != 1 || acc[0] != p.V.Name {
		return fmt.Errorf("Vector() of a v%s object, %q, is accepted by %v (want exactly [%s])", p.V.Name, s, acc, p.V.Name)
	}
	return nil
}

// Transplant puts the body of a valid vector under another header shape.
type Transplant struct {
	Base   gen.Valid `json:"base"`
	Header string    `json:"header"`
}

var transplantHeaders = []string{"", "CVSS:3.0/", "CVSS:3.1/", "CVSS:4.0/", "CVSS:2.0/", "CVSS:3.0", "CVSS:3.1", "CVSS:4.0", "CVSS:3.", "CVSS:3", "CVSS:4", "CVSS:", "cvss:3.1/", "CVSS:3.1/CVSS:3.0/", "CVSS:3.0/CVSS:3.1/", "CVSS:4.0/CVSS:3.1/"}

func (c Transplant) str() string {
	v := spec.Versions[c.Base.Ver]
	return c.Header + c.Base.S[len(v.Header):]
}

func checkTransplant(c Transplant) error {
	s := c.str()
	acc, err := acceptors(s)
	if err != nil {
		return err
	}
	if len(acc) > 1 {
		return fmt.Errorf("%q is accepted by the parsers of %v", s, acc)
	}
	return nil
}

func TestC13(t *testing.T) {
	h := start(t, "C13", "three generators: (a) the C01 string mix offered to all four parsers, (b) the body of a valid vector transplanted under each of 16 header shapes, (c) Vector() of generated objects of every version offered to all four parsers; non-trivial = the string is accepted by exactly one parser; distinct by string")
	if h.replaying() && h.replay.Kind == "fuzz-string" {
		doReplay(h, "fuzz-string", checkOneVersionAndOwner)
		return
	}
	n := env.Scale(150000, 300000)
	if env.Shards > 1 {
		n = env.Scale(150000, 1000000)
	}
	if env.Shards <= 1 {
		nb := oneEditCases()
		Enum(h, "string", len(nb), func(i int) gen.Str { return nb[i] }, nil, checkOneVersion)
		if !h.replaying() {
			for _, c := range nb {
				key := ""
				if acc, _ := acceptors(string(c.S)); len(acc) == 1 {
					key = string(c.S)
				}
				h.R.Case("one-edit neighbourhood of the representative vectors (exhaustive)", key)
			}
		}
	}
	Rapid(h, "string", n, func(rt *rapid.T) gen.Str {
		c := gen.AnyString(rt)
		acc, _ := acceptors(string(c.S))
		key := ""
		if len(acc) == 1 {
			key = string(c.S)
		}
		h.R.Case(fmt.Sprintf("strings: source=%s accepted-by=%v", c.Source, acc), key)
		return c
	}, checkOneVersion)
	Rapid(h, "transplant", n/3, func(rt *rapid.T) Transplant {
		c := Transplant{Base: gen.ValidVector(rt, gen.Version(rt)), Header: transplantHeaders[rapid.IntRange(0, len(transplantHeaders)-1).Draw(rt, "hdr")]}
		acc, _ := acceptors(c.str())
		key := ""
		if len(acc) == 1 {
			key = c.str()
		}
		cl := fmt.Sprintf("transplant: body-of=%s header=%q accepted-by=%v", spec.Versions[c.Base.Ver].Name, c.Header, acc)
		h.R.Case(cl, key)
		if h.R.WantSample("transplant") {
			h.R.Sample("transplant", map[string]any{"string": c.str(), "accepted_by": acc})
		}
		return c
	}, checkTransplant)
	if env.Shards <= 1 {
		// Vector() of every base x temporal / threat combination (thorough: x every requirement combination)
		for vi, v := range spec.Versions {
			k := quickPrefix(vi)
			if env.Tier == "thorough" && !env.Light {
				k = fullPrefix(vi)
			}
			sp := newPrefixSpace(vi, k)
			Enum(h, "vector-owner", sp.size(), func(i int) VecOut { return VecOut{Ver: vi, A: sp.assignment(i)} }, nil, checkVectorOwner)
			if !h.replaying() {
				h.R.AddExact(int64(sp.size()), int64(sp.size()))
				h.R.Count(fmt.Sprintf("v%s exhaustive: Vector() of every combination of the first %d metrics offered to all four parsers", v.Name, k), int64(sp.size()))
			}
		}
	}
	Rapid(h, "vector-owner", n/3, func(rt *rapid.T) VecOut {
		vi := gen.Version(rt)
		a, prof := gen.Object(rt, vi)
		h.R.Case("vector-owner: version="+spec.Versions[vi].Name+" profile="+prof, "V"+spec.Versions[vi].Name+spec.Canon(spec.Versions[vi], a))
		if h.R.WantSample("vector-owner") {
			h.R.Sample("vector-owner", map[string]any{"version": spec.Versions[vi].Name, "canonical": spec.Canon(spec.Versions[vi], a)})
		}
		return VecOut{Ver: vi, A: a}
	}, checkVectorOwner)
}

// ---------------------------------------------------------------- C06

var errRejected = fmt.Errorf("rejected")

func checkMeaning(c gen.Valid) error {
	p := adapt.Pkgs[c.Ver]
	o, err, pan := p.SafeParse(c.S)
	if pan != nil {
		return fmt.Errorf("v%s ParseVector(%q) panicked: %v", p.V.Name, c.S, pan)
	}
	if err != nil || o == nil {
		return nil // C06 is conditional on acceptance (C01 owns rejection); counted by the caller
	}
	for _, m := range p.V.Metrics {
		g, err := o.Get(m.Abv)
		if err != nil {
			return fmt.Errorf("after ParseVector(%q): Get(%s) fails: %v", c.S, m.Abv, err)
		}
		if g != c.A[m.Abv] {
			return fmt.Errorf("after ParseVector(%q): Get(%s) = %q, the vector says %q", c.S, m.Abv, g, c.A[m.Abv])
		}
	}
	return nil
}

// checkMeaningAny: any string that the implementation accepts and the reference
// parser understands must read back as the reference assignment.
func checkMeaningAny(c gen.Str) error {
	s := string(c.S)
	for _, p := range adapt.Pkgs {
		a, ok := spec.Parse(p.V, s)
		if !ok {
			continue
		}
		if err := checkMeaning(gen.Valid{Ver: p.ID, S: s, A: a}); err != nil {
			return err
		}
	}
	return nil
}

var pairVectorMemo []gen.Valid

// pairVectors: for every version, every ordered pair of distinct metrics and
// every pair of their values, a vector in which the other metrics hold a fixed
// background. v3: the two metrics are written FIRST, in that order (the parser
// stores in written order, so this exposes a Set that disturbs an earlier
// metric); v2/v4: fixed order, full vector.
func pairVectors() []gen.Valid {
	if pairVectorMemo != nil {
		return pairVectorMemo
	}
	for vi, v := range spec.Versions {
		bg := background(v, 1)
		var all []string
		for _, m := range v.Metrics {
			all = append(all, m.Abv)
		}
		for i1, m1 := range v.Metrics {
			for i2, m2 := range v.Metrics {
				if i1 == i2 || (v.Name != "3.0" && v.Name != "3.1" && i1 > i2) {
					continue
				}
				for _, v1 := range m1.Vals {
					for _, v2 := range m2.Vals {
						a := bg.Clone()
						a[m1.Abv], a[m2.Abv] = v1, v2
						written := all
						layout := "spec-order"
						if v.Name == "3.0" || v.Name == "3.1" {
							written = []string{m1.Abv, m2.Abv}
							for _, x := range all {
								if x != m1.Abv && x != m2.Abv {
									written = append(written, x)
								}
							}
							layout = "shuffled"
						}
						if v.Name == "2.0" {
							layout = "base+temporal+env"
						}
						pairVectorMemo = append(pairVectorMemo, gen.Valid{Ver: vi, S: spec.Spell(v, a, written), A: a, Written: written, Layout: layout})
					}
				}
			}
		}
	}
	return pairVectorMemo
}

func TestC06(t *testing.T) {
	h := start(t, "C06", "well-formed vectors built by construction from a known assignment (v2: all four group layouts incl. all-ND and one-defined groups; v3: random subset of optional metrics, explicit X, random permutation; v4: random subset, explicit X, all U spellings), plus the C01 string mix filtered by the reference parser; Get of every metric must equal the written value or ND/X; non-trivial = accepted vector; distinct by string")
	n := env.Scale(60000, 150000)
	if env.Shards > 1 {
		n = env.Scale(60000, 500000)
	}
	type cov struct{ written, omitted map[string]bool }
	covs := make([]cov, 4)
	for i := range covs {
		covs[i] = cov{map[string]bool{}, map[string]bool{}}
	}
	var rejected int64
	for vi := range spec.Versions {
		vi := vi
		v := spec.Versions[vi]
		Rapid(h, "valid", n, func(rt *rapid.T) gen.Valid {
			c := gen.ValidVector(rt, vi)
			_, err, _ := adapt.Pkgs[vi].SafeParse(c.S)
			key := c.S
			if err != nil {
				rejected++
				key = ""
			}
			nopt := 0
			wr := map[string]bool{}
			for _, abv := range c.Written {
				wr[abv] = true
				covs[vi].written[abv+":"+c.A[abv]] = true
				if m := v.Metric(abv); !m.Mandatory && c.A[abv] != v.ND {
					nopt++
				}
			}
			for _, m := range v.Metrics {
				if !wr[m.Abv] {
					covs[vi].omitted[m.Abv] = true
				}
			}
			cl := fmt.Sprintf("v%s layout=%s optional-defined=%s", v.Name, c.Layout, bucket(nopt))
			h.R.Case(cl, key)
			if h.R.WantSample("v" + v.Name + " " + c.Layout) {
				h.R.Sample("v"+v.Name+" "+c.Layout, map[string]any{"s": c.S})
			}
			return c
		}, checkMeaning)
	}
	if env.Shards <= 1 {
		pv := pairVectors()
		Enum(h, "valid", len(pv), func(i int) gen.Valid { return pv[i] }, nil, checkMeaning)
		if !h.replaying() {
			h.R.AddExact(int64(len(pv)), int64(len(pv)))
			h.R.Count("exhaustive: every ordered pair of metrics x every pair of values, written first (v3) / in place (v2, v4)", int64(len(pv)))
			h.R.Sample("pair-vector", map[string]any{"s": pv[len(pv)/2].S})
		}
	}
	Rapid(h, "any", n, func(rt *rapid.T) gen.Str {
		c := gen.AnyString(rt)
		_, member := memberOfAny(string(c.S))
		key := ""
		if member {
			key = string(c.S)
		}
		h.R.Case(fmt.Sprintf("string-mix source=%s member=%v", c.Source, member), key)
		return c
	}, checkMeaningAny)
	if h.replaying() {
		return
	}
	if rejected > 0 {
		h.R.Inconclusive("%d generated well-formed vectors were rejected by the parser (see C01); C06 is conditional on acceptance", rejected)
	}
	for vi, v := range spec.Versions {
		for _, m := range v.Metrics {
			for _, val := range m.Vals {
				if !covs[vi].written[m.Abv+":"+val] && !env.Light {
					h.R.Inconclusive("v%s %s:%s never written", v.Name, m.Abv, val)
				}
			}
			if !m.Mandatory && !covs[vi].omitted[m.Abv] && !env.Light {
				h.R.Inconclusive("v%s optional %s never omitted", v.Name, m.Abv)
			}
		}
	}
	h.R.Extra("metric_value_pairs_written", "every (metric,value) pair of every version written at least once; every optional metric omitted at least once")
}

func bucket(n int) string {
	switch {
	case n == 0:
		return "0"
	case n == 1:
		return "1"
	case n <= 4:
		return "2-4"
	case n <= 10:
		return "5-10"
	}
	return ">10"
}

// ---------------------------------------------------------------- C08

func checkCanonical(c gen.Valid) error {
	p := adapt.Pkgs[c.Ver]
	o, err, pan := p.SafeParse(c.S)
	if pan != nil {
		return fmt.Errorf("v%s ParseVector(%q) panicked: %v", p.V.Name, c.S, pan)
	}
	if err != nil || o == nil {
		return nil // conditional on acceptance
	}
	want := spec.Canon(p.V, c.A)
	var got string
	if e := adapt.Safe(func() { got = o.Vector() }); e != nil {
		return fmt.Errorf("Vector() after ParseVector(%q): %v", c.S, e)
	}
	if got != want {
		return fmt.Errorf("ParseVector(%q).Vector() = %q, canonical form is %q", c.S, got, want)
	}
	o2, err, pan := p.SafeParse(got)
	if pan != nil || err != nil || o2 == nil {
		return fmt.Errorf("canonical form %q of %q is not accepted: err=%v panic=%v", got, c.S, err, pan)
	}
	if again := o2.Vector(); again != got {
		return fmt.Errorf("parse-then-serialise is not idempotent: %q -> %q -> %q", c.S, got, again)
	}
	return nil
}

func checkCanonicalAny(c gen.Str) error {
	s := string(c.S)
	for _, p := range adapt.Pkgs {
		a, ok := spec.Parse(p.V, s)
		if !ok {
			continue
		}
		if err := checkCanonical(gen.Valid{Ver: p.ID, S: s, A: a}); err != nil {
			return err
		}
	}
	return nil
}

func TestC08(t *testing.T) {
	h := start(t, "C08", "well-formed vectors built by construction (biased to non-canonical spellings: explicit X, shuffled v3 order, all-ND and partially-ND v2 groups) plus the C01 string mix filtered by the reference parser; Vector() of the parsed object must equal the reference canonical serialisation of the known assignment, and be a fixed point; non-trivial = accepted vector that is not already canonical; distinct by string")
	n := env.Scale(60000, 150000)
	if env.Shards > 1 {
		n = env.Scale(60000, 500000)
	}
	var rejected, canonical int64
	for vi := range spec.Versions {
		vi := vi
		v := spec.Versions[vi]
		Rapid(h, "valid", n, func(rt *rapid.T) gen.Valid {
			c := gen.ValidVector(rt, vi)
			_, err, _ := adapt.Pkgs[vi].SafeParse(c.S)
			isCanon := c.S == spec.Canon(v, c.A)
			key := ""
			switch {
			case err != nil:
				rejected++
			case isCanon:
				canonical++
			default:
				key = c.S
			}
			h.R.Case(fmt.Sprintf("v%s layout=%s already-canonical=%v", v.Name, c.Layout, isCanon), key)
			lbl := fmt.Sprintf("v%s canonical=%v", v.Name, isCanon)
			if h.R.WantSample(lbl) {
				h.R.Sample(lbl, map[string]any{"s": c.S, "canonical": spec.Canon(v, c.A)})
			}
			return c
		}, checkCanonical)
	}
	if env.Shards <= 1 {
		pv := pairVectors()
		Enum(h, "valid", len(pv), func(i int) gen.Valid { return pv[i] }, nil, checkCanonical)
		if !h.replaying() {
			nc := 0
			for _, c := range pv {
				if c.S != spec.Canon(spec.Versions[c.Ver], c.A) {
					nc++
				}
			}
			h.R.AddExact(int64(len(pv)), int64(nc))
			h.R.Count("exhaustive: every ordered pair of metrics x every pair of values (v3: written first, i.e. non-canonical)", int64(len(pv)))
		}
	}
	if env.Shards <= 1 {
		// every base combination x every temporal / threat combination in canonical spelling (thorough:
		// x every security-requirement combination): one particular object answered from a table,
		// or the all-zero object taken for "nothing set", is in here
		for vi, v := range spec.Versions {
			k := quickPrefix(vi)
			if env.Tier == "thorough" && !env.Light {
				k = fullPrefix(vi)
			}
			sp := newPrefixSpace(vi, k)
			Enum(h, "valid", sp.size(), func(i int) gen.Valid {
				a := sp.assignment(i)
				return gen.Valid{Ver: vi, S: spec.Canon(v, a), A: a, Layout: "canonical"}
			}, nil, checkCanonical)
			ws := newWindowSpace(vi, 8)
			Enum(h, "valid", ws.size(), func(i int) gen.Valid {
				a := ws.assignment(i)
				return gen.Valid{Ver: vi, S: spec.Canon(v, a), A: a, Layout: "canonical"}
			}, nil, checkCanonical)
			if !h.replaying() {
				h.R.AddExact(int64(ws.size()), 0)
				h.R.Count(fmt.Sprintf("v%s exhaustive: every window of 8 consecutive metrics x all value combinations x 3 backgrounds (canonical input)", v.Name), int64(ws.size()))
			}
			if !h.replaying() {
				h.R.AddExact(int64(sp.size()), 0)
				h.R.Count(fmt.Sprintf("v%s exhaustive: every combination of the first %d metrics (canonical input; fixed point and reparse)", v.Name, k), int64(sp.size()))
			}
		}
	}
	Rapid(h, "any", n, func(rt *rapid.T) gen.Str {
		c := gen.AnyString(rt)
		vi, member := memberOfAny(string(c.S))
		key := ""
		if member {
			a, _ := spec.Parse(spec.Versions[vi], string(c.S))
			if spec.Canon(spec.Versions[vi], a) != string(c.S) {
				key = string(c.S)
			}
		}
		h.R.Case(fmt.Sprintf("string-mix source=%s member=%v", c.Source, member), key)
		return c
	}, checkCanonicalAny)
	if h.replaying() {
		return
	}
	if rejected > 0 {
		h.R.Inconclusive("%d generated well-formed vectors were rejected by the parser (see C01); C08 is conditional on acceptance", rejected)
	}
	h.R.Count("already canonical inputs (fixed-point check only)", canonical)
}
