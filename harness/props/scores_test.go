package props

import (
	"fmt"
	"math"
	"sync"
	"sync/atomic"
	"testing"

	gocvss30 "github.com/pandatix/go-cvss/30"
	gocvss31 "github.com/pandatix/go-cvss/31"
	gocvss40 "github.com/pandatix/go-cvss/40"
	"pgregory.net/rapid"

	"verifharness/adapt"
	"verifharness/gen"
	"verifharness/spec"
)

// ScoreCase is a full assignment of one version whose scores are checked.
type ScoreCase struct {
	Ver int               `json:"ver"`
	A   map[string]string `json:"assignment"`
}

func (c ScoreCase) vec() string { return spec.Canon(spec.Versions[c.Ver], c.A) }

var v3Oracles = map[int]*spec.V3Oracle{1: spec.NewV3Oracle(false), 2: spec.NewV3Oracle(true)}

// ---------------------------------------------------------------- C03

func checkV3Scores(c ScoreCase) error {
	if c.Ver != 1 && c.Ver != 2 {
		return nil
	}
	p := adapt.Pkgs[c.Ver]
	o, err := p.Build(c.A)
	if err != nil {
		return err
	}
	want := v3Oracles[c.Ver].Score(c.A)
	wk := []int64{want.Base, want.Temporal, want.Env}
	// each score is asked for twice in a row: the answer is a function of the metrics, so a second
	// call on the same object must be checked against the equations like the first
	for round := 0; round < 2; round++ {
		got := o.Scores()
		for i, name := range adapt.ScoreNames[p.V.Name] {
			if got[i] != float64(wk[i])/10 || math.IsNaN(got[i]) {
				return fmt.Errorf("v%s %s of %s = %v (call %d on the object), specification equations give %.1f", p.V.Name, name, c.vec(), got[i], round+1, float64(wk[i])/10)
			}
		}
	}
	sub := o.SubScores()
	if math.Abs(sub[0]-want.Impact) > 1e-9 {
		return fmt.Errorf("v%s Impact of %s = %v, want %v", p.V.Name, c.vec(), sub[0], want.Impact)
	}
	if math.Abs(sub[1]-want.Expl) > 1e-9 {
		return fmt.Errorf("v%s Exploitability of %s = %v, want %v", p.V.Name, c.vec(), sub[1], want.Expl)
	}
	return nil
}

// v3 class space: 8 base metrics (2592) x CR IR AR (64, incl. X) x E RL RC (100, incl. X).
func v3ClassDecode(ver int, idx int) ScoreCase {
	v := spec.Versions[ver]
	a := spec.Assignment{}
	for _, m := range v.Metrics {
		if !m.Mandatory {
			a[m.Abv] = "X"
		}
	}
	order := []string{"AV", "AC", "PR", "UI", "S", "C", "I", "A", "CR", "IR", "AR", "E", "RL", "RC"}
	for i := len(order) - 1; i >= 0; i-- {
		m := v.Metric(order[i])
		a[m.Abv] = m.Vals[idx%len(m.Vals)]
		idx /= len(m.Vals)
	}
	return ScoreCase{Ver: ver, A: a}
}

const v3Classes = 2592 * 64 * 100

// v3ViaModified moves the effective values of a class into the Modified metrics and gives the base
// metrics the next value of their lists (the construction of the Modified-carried enumeration).
func v3ViaModified(c ScoreCase) ScoreCase {
	v := spec.Versions[c.Ver]
	a := spec.Assignment(c.A).Clone()
	for _, n := range []string{"AV", "AC", "PR", "UI", "S", "C", "I", "A"} {
		vs := v.Metric(n).Vals
		eff := a[n]
		a["M"+n] = eff
		for k, x := range vs {
			if x == eff {
				a[n] = vs[(k+1)%len(vs)]
			}
		}
	}
	return ScoreCase{Ver: c.Ver, A: a}
}

type v3scorer interface {
	Set(string, string) error
	BaseScore() float64
	TemporalScore() float64
	EnvironmentalScore() float64
	Impact() float64
	Exploitability() float64
}

func c03Enumerate(h *H, ver int, viaModified bool) {
	v := spec.Versions[ver]
	orc := v3Oracles[ver]
	vals := func(abv string) []string { return v.Metric(abv).Vals }
	var mismatch int64 = -1
	report := func(idx int) {
		for {
			cur := atomic.LoadInt64(&mismatch)
			if cur >= 0 && cur <= int64(idx) {
				return
			}
			if atomic.CompareAndSwapInt64(&mismatch, cur, int64(idx)) {
				return
			}
		}
	}
	var total, positive, near, missCap, cap10, nonPos int64
	parallelFor(2592, func(b int) {
		defer func() {
			if r := recover(); r != nil {
				report(b * 6400)
			}
		}()
		x := b
		ia := x % 3
		x /= 3
		ii := x % 3
		x /= 3
		ic := x % 3
		x /= 3
		is := x % 2
		x /= 2
		iui := x % 2
		x /= 2
		ipr := x % 3
		x /= 3
		iac := x % 2
		x /= 2
		iav := x
		av, ac, pr, ui, s := vals("AV")[iav], vals("AC")[iac], vals("PR")[ipr], vals("UI")[iui], vals("S")[is]
		c, i, a := vals("C")[ic], vals("I")[ii], vals("A")[ia]
		var o v3scorer
		if ver == 1 {
			o = &gocvss30.CVSS30{}
		} else {
			o = &gocvss31.CVSS31{}
		}
		must := func(err error) {
			if err != nil {
				panic(err)
			}
		}
		// base-carried pass: the base metrics hold the effective values, Modified metrics X;
		// Modified-carried pass: the base metrics hold fixed OTHER values and every Modified metric
		// holds the effective value (so every mod() call takes its "overridden" branch)
		bv := [8]string{av, ac, pr, ui, s, c, i, a}
		if viaModified {
			other := func(abv, eff string) string {
				vs := vals(abv)
				for k, x := range vs {
					if x == eff {
						return vs[(k+1)%len(vs)]
					}
				}
				return vs[0]
			}
			names := [8]string{"AV", "AC", "PR", "UI", "S", "C", "I", "A"}
			for k, n := range names {
				bv[k] = other(n, bv[k])
				must(o.Set("M"+n, [8]string{av, ac, pr, ui, s, c, i, a}[k]))
			}
		}
		for k, n := range [8]string{"AV", "AC", "PR", "UI", "S", "C", "I", "A"} {
			must(o.Set(n, bv[k]))
		}
		kb, nb := orc.BaseK(bv[0], bv[1], bv[2], bv[3], bv[4], bv[5], bv[6], bv[7])
		wantImp, _ := orc.Impact(bv[5], bv[6], bv[7], bv[4]).Float64()
		wantExp, _ := orc.Exploitability(bv[0], bv[1], bv[2], bv[3], bv[4]).Float64()
		var lt, lp, ln, lm, l10, lnp int64
		idx := b * 6400
		for _, cr := range vals("CR") {
			must(o.Set("CR", cr))
			for _, ir := range vals("IR") {
				must(o.Set("IR", ir))
				for _, ar := range vals("AR") {
					must(o.Set("AR", ar))
					in := orc.EnvInner(av, ac, pr, ui, s, c, i, a, cr, ir, ar)
					for _, e := range vals("E") {
						must(o.Set("E", e))
						for _, rl := range vals("RL") {
							must(o.Set("RL", rl))
							for _, rc := range vals("RC") {
								must(o.Set("RC", rc))
								ke := spec.TemporalK3(in.K, e, rl, rc)
								kt := spec.TemporalK3(kb, e, rl, rc)
								good := o.EnvironmentalScore() == float64(ke)/10 && o.EnvironmentalScore() == float64(ke)/10 &&
									o.TemporalScore() == float64(kt)/10 && o.TemporalScore() == float64(kt)/10 &&
									o.BaseScore() == float64(kb)/10 && o.BaseScore() == float64(kb)/10 &&
									math.Abs(o.Impact()-wantImp) <= 1e-9 && math.Abs(o.Exploitability()-wantExp) <= 1e-9
								if !good {
									report(idx)
								}
								lt++
								if ke > 0 {
									lp++
								}
								if nb || in.Near || spec.TemporalNear3(kb, e, rl, rc) || (in.K >= 0 && spec.TemporalNear3(in.K, e, rl, rc)) {
									ln++
								}
								if in.MissCap {
									lm++
								}
								if in.Cap10 {
									l10++
								}
								if in.NonPos {
									lnp++
								}
								idx++
							}
						}
					}
				}
			}
		}
		atomic.AddInt64(&total, lt)
		atomic.AddInt64(&positive, lp)
		atomic.AddInt64(&near, ln)
		atomic.AddInt64(&missCap, lm)
		atomic.AddInt64(&cap10, l10)
		atomic.AddInt64(&nonPos, lnp)
	})
	h.R.AddExact(total, positive)
	h.R.SetExhaustive(total == v3Classes)
	pre := "v" + v.Name + " classes: "
	if viaModified {
		pre = "v" + v.Name + " classes carried by the Modified metrics (base metrics hold other values): "
	}
	h.R.Count(pre+"total (8 base x CR/IR/AR x E/RL/RC, Modified=X)", total)
	h.R.Count(pre+"environmental score > 0", positive)
	h.R.Count(pre+"a rounding step within 1e-5 of a tenth", near)
	h.R.Count(pre+"MISS capped at 0.915", missCap)
	h.R.Count(pre+"capped at 10", cap10)
	h.R.Count(pre+"ModifiedImpact <= 0", nonPos)
	if total != v3Classes {
		h.R.Inconclusive("v%s enumeration visited %d of %d classes", v.Name, total, v3Classes)
	}
	for _, idx := range []int{0, 123456, 9999999, v3Classes - 1} {
		c := v3ClassDecode(ver, idx)
		w := orc.Score(c.A)
		h.R.Sample("v"+v.Name+" class", map[string]any{"index": idx, "vector": c.vec(), "oracle": map[string]any{"base": float64(w.Base) / 10, "temporal": float64(w.Temporal) / 10, "environmental": float64(w.Env) / 10}})
	}
	if m := atomic.LoadInt64(&mismatch); m >= 0 {
		c := v3ClassDecode(ver, int(m))
		if viaModified {
			c = v3ViaModified(c)
		}
		err := safely(checkV3Scores, c)
		if err == nil {
			walkDisagrees(h, "C03", ver, int(m), fmt.Sprintf("v%s class %d (%s)", v.Name, m, c.vec()))
		}
		h.fail("v3-assignment", c, err)
	}
}

// ModGrid: each Modified metric x each of its values x each base value, on backgrounds.
func v3ModGrid(ver int) []ScoreCase {
	v := spec.Versions[ver]
	var out []ScoreCase
	for bg := 0; bg < 12; bg++ {
		for _, b := range spec.OverridableOrder(v) {
			mb := spec.ModifiedOf(v)[b]
			for _, bv := range v.Metric(b).Vals {
				for _, mv := range v.Metric(mb).Vals {
					a := background(v, bg+2)
					if bg%3 == 0 { // no other modified metric defined
						for _, x := range spec.ModifiedOf(v) {
							a[x] = "X"
						}
					}
					a[b], a[mb] = bv, mv
					out = append(out, ScoreCase{Ver: ver, A: a})
				}
			}
		}
	}
	return out
}

// v3ModPairs: every base combination (2,592) x every pair of Modified metrics x every pair of their
// values incl. X (so every single Modified metric too), requirements and temporal metrics X.
// Returned as a compact index space decoded on demand.
type v3PairSpace struct {
	ver   int
	pairs [][4]int // m1, v1, m2, v2 (indices into the overridable list / value lists)
}

func newV3PairSpace(ver int) *v3PairSpace {
	v := spec.Versions[ver]
	ov := spec.OverridableOrder(v)
	mod := spec.ModifiedOf(v)
	ps := &v3PairSpace{ver: ver}
	for i1 := 0; i1 < len(ov); i1++ {
		for i2 := i1 + 1; i2 < len(ov); i2++ {
			n1, n2 := len(v.Metric(mod[ov[i1]]).Vals), len(v.Metric(mod[ov[i2]]).Vals)
			for a := 0; a < n1; a++ {
				for b := 0; b < n2; b++ {
					ps.pairs = append(ps.pairs, [4]int{i1, a, i2, b})
				}
			}
		}
	}
	return ps
}

func (ps *v3PairSpace) size() int { return 2592 * len(ps.pairs) }

func (ps *v3PairSpace) decode(idx int) ScoreCase {
	v := spec.Versions[ps.ver]
	ov := spec.OverridableOrder(v)
	mod := spec.ModifiedOf(v)
	c := v3ClassDecode(ps.ver, (idx/len(ps.pairs))*6400) // base part, everything else X
	pr := ps.pairs[idx%len(ps.pairs)]
	m1, m2 := v.Metric(mod[ov[pr[0]]]), v.Metric(mod[ov[pr[2]]])
	c.A[m1.Abv], c.A[m2.Abv] = m1.Vals[pr[1]], m2.Vals[pr[3]]
	return c
}

func TestC03(t *testing.T) {
	h := start(t, "C03", "complete enumeration, for v3.0 and v3.1 each, of the 16,588,800 effective classes (2,592 base combinations x CR/IR/AR incl. X x E/RL/RC incl. X, Modified metrics X) checking BaseScore, TemporalScore, EnvironmentalScore, Impact and Exploitability, walked twice: once with the effective values held by the base metrics and once with every Modified metric holding the effective value over other base values; plus, exhaustively, every base combination x every pair of Modified metric values (2 x 1.4 million cases), a grid (each Modified metric x each value x each base value x 12 backgrounds) and rapid lifts into the raw space with Modified metrics defined; non-trivial = environmental score > 0; enumerated classes are distinct by construction, lifts by assignment")
	h.R.Assume("oracle: FIRST v3.0/v3.1 equations in math/big.Rat, Roundup as the real-number ceiling to one decimal (spec/score3.go); spec_test.go shows it coincides with the Appendix A integer algorithm on the whole domain")
	h.R.Assume("the three scores are compared exactly (got == k/10); Impact/Exploitability with absolute tolerance 1e-9")
	if h.replaying() && h.replay.Kind == "concurrent-classes" {
		doReplay(h, "concurrent-classes", runConcBatch)
		return
	}
	if h.replaying() && h.replay.Kind == "score-history" {
		doReplay(h, "score-history", checkScoreHist)
		return
	}
	if doReplay(h, "v3-assignment", checkV3Scores) {
		return
	}
	// first: single scoring methods in generated order on one object (a defect that depends on the order of
	// calls gets a replayable history here, before the walks could only flag it)
	runScoreHists(h, 1, env.Scale(6000, 60000))
	runScoreHists(h, 2, env.Scale(6000, 60000))
	if env.Shards <= 1 && !env.Light {
		c03Enumerate(h, 1, false)
		c03Enumerate(h, 2, false)
		c03Enumerate(h, 1, true)
		c03Enumerate(h, 2, true)
	}
	if env.Shards <= 1 {
		for _, ver := range []int{1, 2} {
			grid := v3ModGrid(ver)
			Enum(h, "v3-assignment", len(grid), func(i int) ScoreCase { return grid[i] }, nil, checkV3Scores)
			h.R.AddExact(int64(len(grid)), int64(len(grid)))
			h.R.Count("v"+spec.Versions[ver].Name+" Modified-metric grid cases", int64(len(grid)))
			ps := newV3PairSpace(ver)
			Enum(h, "v3-assignment", ps.size(), ps.decode, nil, checkV3Scores)
			h.R.AddExact(int64(ps.size()), int64(ps.size()))
			h.R.Count("v"+spec.Versions[ver].Name+" exhaustive: every base combination x every pair of Modified metric values", int64(ps.size()))
			ws := newWindowSpace(ver, 5)
			Enum(h, "v3-assignment", ws.size(), func(i int) ScoreCase { return ScoreCase{Ver: ver, A: ws.assignment(i)} }, nil, checkV3Scores)
			h.R.AddExact(int64(ws.size()), int64(ws.size()))
			h.R.Count("v"+spec.Versions[ver].Name+" windows: every 5 consecutive metrics x all value combinations x 3 backgrounds", int64(ws.size()))
			cs := newCornerSpace(ver)
			Enum(h, "v3-assignment", cs.size(), cs.decode, nil, checkV3Scores)
			h.R.AddExact(int64(cs.size()), int64(cs.size()))
			h.R.Count("v"+spec.Versions[ver].Name+" corners: every subset of the Modified metrics explicit at an extreme x every spelling of CR/IR/AR x {X,first,last} of E/RL/RC x 2 base backgrounds", int64(cs.size()))
		}
	}
	n := env.Scale(50000, 100000)
	if env.Shards > 1 {
		n = env.Scale(50000, 500000)
	}
	Rapid(h, "v3-assignment", n, func(rt *rapid.T) ScoreCase {
		ver := rapid.IntRange(1, 2).Draw(rt, "ver")
		a, prof := gen.Object(rt, ver)
		c := ScoreCase{Ver: ver, A: a}
		w := v3Oracles[ver].Score(a)
		nmod := 0
		for _, mb := range spec.ModifiedOf(spec.Versions[ver]) {
			if a[mb] != "X" {
				nmod++
			}
		}
		key := ""
		if w.Env > 0 {
			key = c.vec()
		}
		h.R.Case(fmt.Sprintf("lift v%s profile=%s modified-defined=%s", spec.Versions[ver].Name, prof, bucket(nmod)), key)
		if h.R.WantSample("lift") {
			h.R.Sample("lift", map[string]any{"vector": c.vec(), "oracle_env": float64(w.Env) / 10})
		}
		return c
	}, checkV3Scores)
}

// ---------------------------------------------------------------- C04

func checkV4Score(c ScoreCase) error {
	if c.Ver != 3 {
		return nil
	}
	o, err := adapt.P40.Build(c.A)
	if err != nil {
		return err
	}
	want := spec.ScoreV4(spec.EffectiveV4(c.A))
	var got float64
	if e := adapt.Safe(func() {
		got = o.Scores()[0]
		// asked twice: the second answer on the same object is checked like the first
		if again := o.Scores()[0]; again != got {
			got = again
		}
	}); e != nil {
		return fmt.Errorf("v4.0 Score of %s: %v", c.vec(), e)
	}
	if got != float64(want.K)/10 || math.IsNaN(got) {
		extra := ""
		if want.Tie {
			extra = " (an exact x.x5 tie, rounds half-up)"
		}
		if want.Zero {
			extra = " (all six effective impact metrics are None)"
		}
		return fmt.Errorf("v4.0 Score of %s = %v, specification gives %.1f: MacroVector %s, exact value %d/%d tenths%s", c.vec(), got, float64(want.K)/10, want.MV, want.Num, want.Den, extra)
	}
	return nil
}

// buildV4Class builds the representative object of an effective class by Set.
func buildV4Class(d [15]int) (gocvss40.CVSS40, error) {
	var o gocvss40.CVSS40
	for i, dim := range spec.V4Dims {
		val := dim.Vals[d[i]]
		var err error
		switch {
		case (dim.Name == "SI" || dim.Name == "SA") && val == "S":
			if err = o.Set(dim.Name, "N"); err == nil {
				err = o.Set("M"+dim.Name, "S")
			}
		default:
			err = o.Set(dim.Name, val)
		}
		if err != nil {
			return o, err
		}
	}
	return o, nil
}

// buildV4ClassViaModified: the Modified metrics carry the effective values, the base metrics hold
// the next value of their lists (SI/SA: N).
func buildV4ClassViaModified(d [15]int) (gocvss40.CVSS40, error) {
	var o gocvss40.CVSS40
	for i, dim := range spec.V4Dims {
		val := dim.Vals[d[i]]
		var err error
		if i < 11 {
			base := "N"
			if dim.Name != "SI" && dim.Name != "SA" {
				vs := spec.V4.Metric(dim.Name).Vals
				for k, x := range vs {
					if x == val {
						base = vs[(k+1)%len(vs)]
					}
				}
			}
			if err = o.Set(dim.Name, base); err == nil {
				err = o.Set("M"+dim.Name, val)
			}
		} else {
			err = o.Set(dim.Name, val)
		}
		if err != nil {
			return o, err
		}
	}
	return o, nil
}

func v4ClassCaseViaModified(idx int) ScoreCase {
	_, d := spec.V4Decode(idx)
	o, err := buildV4ClassViaModified(d)
	if err != nil {
		return ScoreCase{Ver: 3}
	}
	a, _ := adapt.P40.Read(adapt.O40{P: &o})
	return ScoreCase{Ver: 3, A: a}
}

func v4ClassCase(idx int) ScoreCase {
	e, _ := spec.V4Decode(idx)
	return ScoreCase{Ver: 3, A: spec.AssignmentFromEff4(e)}
}

// v4AllScores evaluates the implementation on every effective class (tenths,
// -1 for a non-one-decimal / panicking result).
func v4AllScores() []int16 { return v4AllScoresWith(buildV4Class, true) }

// twice: Score is asked for a second time on each object and must answer the same.
func v4AllScoresWith(build func([15]int) (gocvss40.CVSS40, error), twice bool) []int16 {
	n := spec.V4Classes()
	out := make([]int16, n)
	const chunk = 8192
	nchunks := (n + chunk - 1) / chunk
	parallelFor(nchunks, func(ci int) {
		for i := ci * chunk; i < (ci+1)*chunk && i < n; i++ {
			func() {
				defer func() {
					if r := recover(); r != nil {
						out[i] = -1
					}
				}()
				_, d := spec.V4Decode(i)
				o, err := build(d)
				if err != nil {
					out[i] = -1
					return
				}
				sc := o.Score()
				k, ok := tenths(sc)
				if !ok || k < 0 || k > 100 || twice && o.Score() != sc {
					out[i] = -1
					return
				}
				out[i] = int16(k)
			}()
		}
	})
	return out
}

// v4 base combinations (104,976) x every single Modified metric value (E, CR, IR, AR = X).
type v4SingleSpace struct{ singles [][2]string }

func newV4SingleSpace() *v4SingleSpace {
	sp := &v4SingleSpace{singles: [][2]string{{"", ""}}}
	for _, b := range spec.OverridableOrder(spec.V4) {
		m := spec.V4.Metric(spec.ModifiedOf(spec.V4)[b])
		for _, val := range m.Vals[1:] {
			sp.singles = append(sp.singles, [2]string{m.Abv, val})
		}
	}
	return sp
}

const v4BaseCombos = 4 * 2 * 2 * 3 * 3 * 729

func (sp *v4SingleSpace) size() int { return v4BaseCombos * len(sp.singles) }

func (sp *v4SingleSpace) decode(idx int) ScoreCase {
	a := spec.Assignment{}
	for _, m := range spec.V4.Metrics {
		if !m.Mandatory {
			a[m.Abv] = "X"
		}
	}
	b := idx / len(sp.singles)
	for i := 10; i >= 0; i-- {
		m := spec.V4.Metrics[i]
		a[m.Abv] = m.Vals[b%len(m.Vals)]
		b /= len(m.Vals)
	}
	if sg := sp.singles[idx%len(sp.singles)]; sg[0] != "" {
		a[sg[0]] = sg[1]
	}
	return ScoreCase{Ver: 3, A: a}
}

func TestC04(t *testing.T) {
	h := start(t, "C04", "complete enumeration of the 15,116,544 effective v4.0 classes (AV AC AT PR UI VC VI VA SC SI{S,H,L,N} SA{S,H,L,N} E{A,P,U} CR IR AR{H,M,L}; SI/SA=S carried by MSI/MSA:S) covering all 270 MacroVectors, walked twice (effective values held by the base metrics; held by the Modified metrics over other base values), Score compared exactly with the oracle; plus, exhaustively, every base combination (104,976) x every single Modified metric value (3.9 million cases), and rapid lifts into the raw space (Modified overrides, explicit X, supplemental metrics, all-None corner profiles); non-trivial = not all effective impacts None; enumerated classes are distinct by construction, lifts by assignment")
	h.R.Assume("oracle: specification section 8.2 over metric letters, exact fraction of tenths with denominator 840*n, rounded half-up (spec/score4.go); frozen 270-entry lookup table (spec/v4lookup.go, SHA-256 pinned in spec_test.go)")
	if h.replaying() && h.replay.Kind == "concurrent-classes" {
		doReplay(h, "concurrent-classes", runConcBatch)
		return
	}
	if h.replaying() && h.replay.Kind == "score-history" {
		doReplay(h, "score-history", checkScoreHist)
		return
	}
	if doReplay(h, "v4-assignment", checkV4Score) {
		return
	}
	runScoreHists(h, 3, env.Scale(8000, 60000))
	if env.Shards <= 1 && !env.Light {
		n := spec.V4Classes()
		imp := v4AllScores()
		var mism int64 = -1
		var ties, zero, nontriv int64
		mvSeen := sync.Map{}
		const chunk = 8192
		nchunks := (n + chunk - 1) / chunk
		parallelFor(nchunks, func(ci int) {
			var lt, lz, ln int64
			local := map[string]bool{}
			for i := ci * chunk; i < (ci+1)*chunk && i < n; i++ {
				e, _ := spec.V4Decode(i)
				w := spec.ScoreV4(e)
				if w.Tie {
					lt++
				}
				if w.Zero {
					lz++
				} else {
					ln++
					local[w.MV] = true
				}
				if int(imp[i]) != w.K {
					for {
						cur := atomic.LoadInt64(&mism)
						if cur >= 0 && cur <= int64(i) {
							break
						}
						if atomic.CompareAndSwapInt64(&mism, cur, int64(i)) {
							break
						}
					}
				}
			}
			atomic.AddInt64(&ties, lt)
			atomic.AddInt64(&zero, lz)
			atomic.AddInt64(&nontriv, ln)
			for k := range local {
				mvSeen.Store(k, true)
			}
		})
		nmv := 0
		mvSeen.Range(func(_, _ any) bool { nmv++; return true })
		h.R.AddExact(int64(n), nontriv)
		h.R.SetExhaustive(true)
		h.R.Count("effective classes", int64(n))
		h.R.Count("classes whose exact value is an x.x5 tie", ties)
		h.R.Count("classes with all effective impacts None (score 0.0)", zero)
		h.R.Count("MacroVectors reached (of 270)", int64(nmv))
		if nmv != 270 {
			h.R.Inconclusive("only %d of 270 MacroVectors reached", nmv)
		}
		for _, idx := range []int{0, 1234567, 7777777, n - 1, 4000000} {
			c := v4ClassCase(idx)
			w := spec.ScoreV4(spec.EffectiveV4(c.A))
			h.R.Sample("class", map[string]any{"index": idx, "vector": c.vec(), "macrovector": w.MV, "exact_tenths": fmt.Sprintf("%d/%d", w.Num, w.Den), "oracle": float64(w.K) / 10, "tie": w.Tie})
		}
		if mism >= 0 {
			c := v4ClassCase(int(mism))
			err := safely(checkV4Score, c)
			if err == nil {
				walkDisagrees(h, "C04", 3, int(mism), fmt.Sprintf("class %d (%s)", mism, c.vec()))
			}
			h.fail("v4-assignment", c, err)
		}
		// second pass: the same classes carried by the Modified metrics over other base values
		imp2 := v4AllScoresWith(buildV4ClassViaModified, false)
		var mism2 int64 = -1
		parallelFor(nchunks, func(ci int) {
			for i := ci * chunk; i < (ci+1)*chunk && i < n; i++ {
				e, _ := spec.V4Decode(i)
				if int(imp2[i]) != spec.ScoreV4(e).K {
					setMin(&mism2, int64(i))
				}
			}
		})
		h.R.AddExact(int64(n), nontriv)
		h.R.Count("effective classes carried by the Modified metrics (base metrics hold other values)", int64(n))
		if mism2 >= 0 {
			c := v4ClassCaseViaModified(int(mism2))
			err := safely(checkV4Score, c)
			if err == nil {
				walkDisagrees(h, "C04", 3, int(mism2), fmt.Sprintf("Modified-carried class %d (%s)", mism2, c.vec()))
			}
			h.fail("v4-assignment", c, err)
		}
	}
	if env.Shards <= 1 {
		sp := newV4SingleSpace()
		Enum(h, "v4-assignment", sp.size(), sp.decode, nil, checkV4Score)
		h.R.AddExact(int64(sp.size()), int64(sp.size()))
		h.R.Count("exhaustive: every base combination (104,976) x every single Modified metric value (and none)", int64(sp.size()))
		ws := newWindowSpace(3, 6)
		Enum(h, "v4-assignment", ws.size(), func(i int) ScoreCase { return ScoreCase{Ver: 3, A: ws.assignment(i)} }, nil, checkV4Score)
		h.R.AddExact(int64(ws.size()), int64(ws.size()))
		h.R.Count("windows: every 6 consecutive metrics x all value combinations x 3 backgrounds", int64(ws.size()))
		cs := newCornerSpace(3)
		Enum(h, "v4-assignment", cs.size(), cs.decode, nil, checkV4Score)
		h.R.AddExact(int64(cs.size()), int64(cs.size()))
		h.R.Count("corners: every subset of the Modified metrics explicit at an extreme x every spelling (incl. X) of E/CR/IR/AR x 2 base backgrounds", int64(cs.size()))
	}
	n := env.Scale(50000, 100000)
	if env.Shards > 1 {
		n = env.Scale(50000, 500000)
	}
	Rapid(h, "v4-assignment", n, func(rt *rapid.T) ScoreCase {
		a, prof := gen.Object(rt, 3)
		c := ScoreCase{Ver: 3, A: a}
		e := spec.EffectiveV4(a)
		w := spec.ScoreV4(e)
		baseNone := a["VC"] == "N" && a["VI"] == "N" && a["VA"] == "N" && a["SC"] == "N" && a["SI"] == "N" && a["SA"] == "N"
		key := ""
		if !w.Zero {
			key = c.vec()
		}
		cl := fmt.Sprintf("lift profile=%s", prof)
		if baseNone != w.Zero {
			cl += " base-all-None!=effective-all-None"
			h.R.Count("lifts where base-all-None differs from effective-all-None", 1)
		}
		if w.Tie {
			h.R.Count("lifts that are exact ties", 1)
		}
		h.R.Case(cl, key)
		if h.R.WantSample(cl) {
			h.R.Sample(cl, map[string]any{"vector": c.vec(), "oracle": float64(w.K) / 10})
		}
		return c
	}, checkV4Score)
}
