package props

import (
	"fmt"
	"runtime"
	"strings"
	"testing"

	gocvss20 "github.com/pandatix/go-cvss/20"
	gocvss30 "github.com/pandatix/go-cvss/30"
	gocvss31 "github.com/pandatix/go-cvss/31"
	gocvss40 "github.com/pandatix/go-cvss/40"
	"pgregory.net/rapid"

	"verifharness/gen"
	"verifharness/spec"
)

// sinks keep results alive so that the compiler cannot remove the calls.
var (
	sink20  *gocvss20.CVSS20
	sink30  *gocvss30.CVSS30
	sink31  *gocvss31.CVSS31
	sink40  *gocvss40.CVSS40
	sinkStr string
	sinkF   float64
	sinkErr error
)

// allocs measures the steady-state allocations of f; on a miss against the
// budget the measurement is repeated (a GC that empties the v2 split pool in
// the middle of a measurement is not a regression; a real one is deterministic).
func allocs(f func(), budgetMax float64) float64 {
	best := testing.AllocsPerRun(20, f)
	for i := 0; i < 3 && best > budgetMax; i++ {
		if a := testing.AllocsPerRun(20, f); a < best {
			best = a
		}
	}
	return best
}

// allocsAfter measures the allocations of f alone when every call of f is
// preceded by a call of pre (whose own allocations are not counted).
func allocsAfter(pre, f func()) float64 {
	defer runtime.GOMAXPROCS(runtime.GOMAXPROCS(1))
	measure := func() float64 {
		var m0, m1 runtime.MemStats
		pre()
		f()
		var sum uint64
		const runs = 20
		for i := 0; i < runs; i++ {
			pre()
			runtime.ReadMemStats(&m0)
			f()
			runtime.ReadMemStats(&m1)
			sum += m1.Mallocs - m0.Mallocs
		}
		return float64(sum / runs)
	}
	best := measure()
	for i := 0; i < 3 && best > 1; i++ {
		if a := measure(); a < best {
			best = a
		}
	}
	return best
}

type allocAPI struct {
	parse func(string) bool
	obj   interface {
		Get(string) (string, error)
		Set(string, string) error
		Vector() string
	}
	scores  map[string]func() float64
	rating  func(float64) (string, error)
	nomen   func() string
	reparse func(string) // re-parse into obj
}

func allocTarget(vi int) *allocAPI {
	switch vi {
	case 0:
		o := &gocvss20.CVSS20{}
		return &allocAPI{
			parse: func(s string) bool { c, err := gocvss20.ParseVector(s); sink20 = c; return err == nil },
			obj:   o, scores: map[string]func() float64{ // closures, not method values: a method value of a value receiver would bind a copy of *o now
				"BaseScore": func() float64 { return o.BaseScore() }, "TemporalScore": func() float64 { return o.TemporalScore() },
				"EnvironmentalScore": func() float64 { return o.EnvironmentalScore() }, "Impact": func() float64 { return o.Impact() }, "Exploitability": func() float64 { return o.Exploitability() }},
			reparse: func(s string) { c, _ := gocvss20.ParseVector(s); *o = *c },
		}
	case 1:
		o := &gocvss30.CVSS30{}
		return &allocAPI{
			parse: func(s string) bool { c, err := gocvss30.ParseVector(s); sink30 = c; return err == nil },
			obj:   o, scores: map[string]func() float64{ // closures, not method values: a method value of a value receiver would bind a copy of *o now
				"BaseScore": func() float64 { return o.BaseScore() }, "TemporalScore": func() float64 { return o.TemporalScore() },
				"EnvironmentalScore": func() float64 { return o.EnvironmentalScore() }, "Impact": func() float64 { return o.Impact() }, "Exploitability": func() float64 { return o.Exploitability() }},
			rating:  gocvss30.Rating,
			reparse: func(s string) { c, _ := gocvss30.ParseVector(s); *o = *c },
		}
	case 2:
		o := &gocvss31.CVSS31{}
		return &allocAPI{
			parse: func(s string) bool { c, err := gocvss31.ParseVector(s); sink31 = c; return err == nil },
			obj:   o, scores: map[string]func() float64{ // closures, not method values: a method value of a value receiver would bind a copy of *o now
				"BaseScore": func() float64 { return o.BaseScore() }, "TemporalScore": func() float64 { return o.TemporalScore() },
				"EnvironmentalScore": func() float64 { return o.EnvironmentalScore() }, "Impact": func() float64 { return o.Impact() }, "Exploitability": func() float64 { return o.Exploitability() }},
			rating:  gocvss31.Rating,
			reparse: func(s string) { c, _ := gocvss31.ParseVector(s); *o = *c },
		}
	}
	o := &gocvss40.CVSS40{}
	return &allocAPI{
		parse: func(s string) bool { c, err := gocvss40.ParseVector(s); sink40 = c; return err == nil },
		obj:   o, scores: map[string]func() float64{"Score": func() float64 { return o.Score() }},
		rating:  gocvss40.Rating,
		nomen:   func() string { return o.Nomenclature() },
		reparse: func(s string) { c, _ := gocvss40.ParseVector(s); *o = *c },
	}
}

var allocTargets = map[int]*allocAPI{}

// AllocCase: one valid vector; every API call is measured on it / its object.
type AllocCase struct {
	V      gen.Valid `json:"vector"`
	Metric string    `json:"metric"` // the metric used for Get/Set
	Bad    string    `json:"bad_value"`
	BadVec gen.BStr  `json:"rejected_vector"` // a near-miss of V that the parser must reject; parsed between successful parses
}

func checkAllocs(c AllocCase) error {
	api := allocTargets[c.V.Ver]
	if api == nil {
		api = allocTarget(c.V.Ver)
		allocTargets[c.V.Ver] = api
	}
	v := spec.Versions[c.V.Ver]
	s := c.V.S
	if !api.parse(s) {
		return nil // conditional on acceptance (C01)
	}
	if a := allocs(func() { api.parse(s) }, 1); a > 1 {
		return fmt.Errorf("v%s ParseVector(%q) performs %v allocations per call, budget is at most 1", v.Name, s, a)
	}
	// a rejected parse in between must not make the next successful parse more expensive
	// (a scratch buffer that is not returned on one error path shows here)
	if bad := string(c.BadVec); bad != "" && !spec.Member(v, bad) && !api.parse(bad) {
		if a := allocsAfter(func() { api.parse(bad) }, func() { api.parse(s) }); a > 1 {
			return fmt.Errorf("v%s ParseVector(%q) performs %v allocations per call when each call follows the rejected ParseVector(%q); budget is at most 1", v.Name, s, a, bad)
		}
	}
	// ... nor an oversized rejected input (a buffer that is "too large to keep" and therefore not returned)
	huge := s + "/ZZ:" + strings.Repeat("N", 70000)
	if !api.parse(huge) {
		if a := allocsAfter(func() { api.parse(huge) }, func() { api.parse(s) }); a > 1 {
			return fmt.Errorf("v%s ParseVector(%q) performs %v allocations per call when each call follows a rejected input of %d bytes; budget is at most 1", v.Name, s, a, len(huge))
		}
	}
	api.reparse(s)
	if a := allocs(func() { sinkStr = api.obj.Vector() }, 1); a != 1 {
		return fmt.Errorf("v%s Vector() of %q performs %v allocations per call, budget is exactly 1", v.Name, s, a)
	}
	m := v.Metric(c.Metric)
	if m == nil {
		return nil
	}
	abv := m.Abv
	if a := allocs(func() { sinkStr, sinkErr = api.obj.Get(abv) }, 0); a != 0 {
		return fmt.Errorf("v%s Get(%q) performs %v allocations per call, budget is 0", v.Name, abv, a)
	}
	cur, _ := api.obj.Get(abv)
	if a := allocs(func() { sinkErr = api.obj.Set(abv, cur) }, 0); a != 0 {
		return fmt.Errorf("v%s Set(%q,%q) performs %v allocations per call, budget is 0", v.Name, abv, cur, a)
	}
	if !m.HasValue(c.Bad) {
		bad := c.Bad
		if a := allocs(func() { sinkErr = api.obj.Set(abv, bad) }, 0); a != 0 {
			return fmt.Errorf("v%s Set(%q,%q) (illegal value) performs %v allocations per call, budget is 0", v.Name, abv, bad, a)
		}
	}
	for _, name := range []string{"BaseScore", "TemporalScore", "EnvironmentalScore", "Impact", "Exploitability", "Score"} {
		f := api.scores[name]
		if f == nil {
			continue
		}
		if a := allocs(func() { sinkF = f() }, 0); a != 0 {
			return fmt.Errorf("v%s %s of %q performs %v allocations per call, budget is 0", v.Name, name, s, a)
		}
	}
	if api.rating != nil {
		for _, x := range []float64{sinkF, 0, 10, -1, 10.5} {
			x := x
			if a := allocs(func() { sinkStr, sinkErr = api.rating(x) }, 0); a != 0 {
				return fmt.Errorf("v%s Rating(%v) performs %v allocations per call, budget is 0", v.Name, x, a)
			}
		}
	}
	if api.nomen != nil {
		if a := allocs(func() { sinkStr = api.nomen() }, 0); a != 0 {
			return fmt.Errorf("v4.0 Nomenclature of %q performs %v allocations per call, budget is 0", s, a)
		}
	}
	return nil
}

func TestC17(t *testing.T) {
	h := start(t, "C17", "valid vectors of every version (C06 generator: all group layouts / subsets of optional metrics / explicit X / all five U spellings / shuffled v3 order); on each, testing.AllocsPerRun(20) around ParseVector (<=1), Vector() (=1), Get and Set on a generated known metric with a legal and an illegal value (0), every scoring method (0), Rating in and out of range (0), Nomenclature (0), and ParseVector again when every call follows a rejected near-miss of the vector (<=1 for the successful call); exhaustively every optional metric x value alone and with all other optional metrics defined; minimum of up to 4 measurements on a miss; own process, no race detector; non-trivial = the vector has at least one optional metric present; distinct by (vector, metric)")
	h.R.Assume("measured on the default toolchain (go1.23.5 linux/amd64) in steady state; Set on an unknown metric (allocates its typed error) is outside the statement and not measured")
	n := env.Scale(2500, 40000)
	present := make([]map[string]bool, 4)
	for i := range present {
		present[i] = map[string]bool{}
	}
	if env.Shards <= 1 {
		// exhaustive: every optional metric x every value, alone (others omitted) and with every other
		// optional metric defined: the shapes that expose a lenVec branch of a single metric/value
		var singles []AllocCase
		for vi, v := range spec.Versions {
			for _, m := range v.Optional() {
				for _, val := range m.Vals[1:] {
					for _, full := range []bool{false, true} {
						a := spec.Assignment{}
						var written []string
						for _, x := range v.Metrics {
							switch {
							case x.Mandatory:
								a[x.Abv] = x.Vals[0]
								written = append(written, x.Abv)
							case x.Abv == m.Abv:
								a[x.Abv] = val
								written = append(written, x.Abv)
							case full || v.Name == "2.0" && x.Group == m.Group:
								if full {
									a[x.Abv] = x.Vals[len(x.Vals)-1]
								} else {
									a[x.Abv] = v.ND
								}
								written = append(written, x.Abv)
							default:
								a[x.Abv] = v.ND
							}
						}
						singles = append(singles, AllocCase{V: gen.Valid{Ver: vi, S: spec.Spell(v, a, written), A: a, Written: written, Layout: "single"}, Metric: m.Abv, Bad: "zz"})
					}
				}
			}
		}
		if !doReplay(h, "allocs", checkAllocs) {
			for _, c := range singles {
				h.R.Pending("allocs", c)
				if err := safely(checkAllocs, c); err != nil {
					h.fail("allocs", c, err)
				}
			}
			h.R.AddExact(int64(len(singles)), int64(len(singles)))
			h.R.Count("exhaustive: each optional metric x each value, alone and with all other optional metrics defined", int64(len(singles)))
		}
	}
	// exact totals over long streams: one vector many times, and feeds of different objects
	if !doReplay(h, "stream", checkStream) {
		sc := streamCases(env.Scale(60000, 1000000), env.Scale(8000, 15000), int(env.Seed%5)*4000)
		for _, c := range sc {
			h.R.Pending("stream", c)
			if err := safely(checkStream, c); err != nil {
				h.fail("stream", c, err)
			}
		}
		h.R.AddExact(int64(len(sc)), int64(len(sc)))
		var calls int64
		for _, c := range sc {
			calls += int64(c.N)
		}
		h.R.Count("stream measurements (exact allocation totals over long runs / feeds of different objects)", int64(len(sc)))
		h.R.Count("calls inside stream measurements", calls)
		h.R.Sample("stream", sc[len(sc)-1])
	}
	for vi := range spec.Versions {
		vi := vi
		v := spec.Versions[vi]
		Rapid(h, "allocs", n, func(rt *rapid.T) AllocCase {
			c := AllocCase{V: gen.ValidVector(rt, vi)}
			c.Metric = v.Metrics[rapid.IntRange(0, len(v.Metrics)-1).Draw(rt, "metric")].Abv
			bad := append([]string{"", "ZZ", "x", "QQQQQQQQQQQQQQQQQQQQQQQQQQQQQQQQQQQQQQQQQQQQQQQQQQQQQQQQQQQQQQQQQ"}, gen.AllVals()...)
			c.Bad = bad[rapid.IntRange(0, len(bad)-1).Draw(rt, "bad")]
			if bv, _ := gen.Mutate(rt, c.V); !spec.Member(v, bv) {
				c.BadVec = gen.BStr(bv)
			}
			nopt := 0
			for _, abv := range c.V.Written {
				if !v.Metric(abv).Mandatory {
					nopt++
					present[vi][abv] = true
					if abv == "U" {
						present[vi]["U:"+c.V.A["U"]] = true
					}
				}
			}
			key := ""
			if nopt > 0 {
				key = c.V.S + "|" + c.Metric
			}
			h.R.Case(fmt.Sprintf("v%s layout=%s optional-written=%s", v.Name, c.V.Layout, bucket(nopt)), key)
			if h.R.WantSample("v" + v.Name) {
				h.R.Sample("v"+v.Name, map[string]any{"s": c.V.S, "metric": c.Metric, "bad_value": c.Bad})
			}
			return c
		}, checkAllocs)
	}
	if h.replaying() {
		return
	}
	for vi, v := range spec.Versions {
		for _, m := range v.Optional() {
			if !present[vi][m.Abv] {
				h.R.Inconclusive("v%s optional metric %s never present in a measured vector", v.Name, m.Abv)
			}
		}
	}
	for _, u := range []string{"X", "Clear", "Green", "Amber", "Red"} {
		if !present[3]["U:"+u] {
			h.R.Inconclusive("v4.0 U:%s never present in a measured vector", u)
		}
	}
}
