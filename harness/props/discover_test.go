package props

import (
	"encoding"
	"encoding/json"
	"fmt"
	"reflect"
	"sort"

	"verifharness/adapt"
	"verifharness/gen"
	"verifharness/spec"
)

// Discovery of API that the property statements do not name. "Every object that can be obtained through the
// public API" includes objects obtained through methods added later: a decoder (UnmarshalBinary / Text / JSON,
// GobDecode) that lets an illegal field code in, or an accessor that hands out one of the package's own tables.
// Whatever the four object types export beyond the known methods is looked up by reflection:
//   - a standard decoding interface is fed the output of its encoder (if any) with every single-byte change, and
//     short byte strings; whenever it reports success the object must satisfy the C09 invariant;
//   - a method without arguments that returns a slice or a map is called and its result overwritten; the package
//     must behave as before (the result was a copy).
// On a tree without such methods this finds nothing and says so in the evidence.

var knownMethods = map[string]bool{"Get": true, "Set": true, "Vector": true, "BaseScore": true, "TemporalScore": true, "EnvironmentalScore": true,
	"Impact": true, "Exploitability": true, "Score": true, "Nomenclature": true}

type gobDecoder interface{ GobDecode([]byte) error }
type gobEncoder interface{ GobEncode() ([]byte, error) }

// DiscoverCase: one input of one discovered decoder, or one scribbled accessor.
type DiscoverCase struct {
	Ver    int      `json:"ver"`
	Method string   `json:"method"`
	Input  gen.BStr `json:"input,omitempty"`
}

func ptrOf(o adapt.Obj) any {
	switch x := o.(type) {
	case adapt.O20:
		return x.P
	case adapt.O30:
		return x.P
	case adapt.O31:
		return x.P
	case adapt.O40:
		return x.P
	}
	return nil
}

func checkDiscover(c DiscoverCase) error {
	if c.Ver < 0 || c.Ver > 3 {
		return nil
	}
	p := adapt.Pkgs[c.Ver]
	o := p.Zero()
	ptr := ptrOf(o)
	in := []byte(string(c.Input))
	var err error
	called := false
	if e := adapt.Safe(func() {
		switch c.Method {
		case "UnmarshalBinary":
			if u, ok := ptr.(encoding.BinaryUnmarshaler); ok {
				called, err = true, u.UnmarshalBinary(in)
			}
		case "UnmarshalText":
			if u, ok := ptr.(encoding.TextUnmarshaler); ok {
				called, err = true, u.UnmarshalText(in)
			}
		case "UnmarshalJSON":
			if u, ok := ptr.(json.Unmarshaler); ok {
				called, err = true, u.UnmarshalJSON(in)
			}
		case "GobDecode":
			if u, ok := ptr.(gobDecoder); ok {
				called, err = true, u.GobDecode(in)
			}
		default:
			// an accessor: call it, overwrite what it returned, then use the package
			m := reflect.ValueOf(ptr).MethodByName(c.Method)
			if m.IsValid() && m.Type().NumIn() == 0 && m.Type().NumOut() >= 1 {
				called = true
				for _, r := range m.Call(nil) {
					scribble(r)
				}
			}
		}
	}); e != nil {
		return fmt.Errorf("v%s %s(%q): %v", p.V.Name, c.Method, string(c.Input), e)
	}
	if !called {
		return nil
	}
	if knownDecoder(c.Method) {
		if err != nil {
			return nil // refused: fine
		}
		if e := wellFormed(p, o, fmt.Sprintf("after a successful %s(%q)", c.Method, string(c.Input))); e != nil {
			return e
		}
		// the same input decoded into a receiver that already holds another object (every optional metric
		// defined) must give the same object: a decoder fills its receiver, it does not merge into it
		for _, r := range gen.Representatives() {
			if r.Ver != c.Ver {
				continue
			}
			used, perr := p.Parse(r.S)
			if perr != nil || used == nil {
				continue
			}
			var err2 error
			if e := adapt.Safe(func() { err2 = decodeInto(ptrOf(used), c.Method, in) }); e != nil {
				return fmt.Errorf("v%s %s(%q) into a used receiver: %v", p.V.Name, c.Method, string(c.Input), e)
			}
			if err2 == nil && !used.Eq(o) {
				return fmt.Errorf("v%s %s(%q) gives state %s on a fresh receiver and %s on a receiver that held %s", p.V.Name, c.Method, string(c.Input), o.State(), used.State(), r.S)
			}
		}
		return nil
	}
	// after scribbling over an accessor's result every representative vector must still read back as written
	for _, r := range gen.Representatives() {
		if r.Ver != c.Ver {
			continue
		}
		q, perr, pan := p.SafeParse(r.S)
		if pan != nil || perr != nil || q == nil {
			return fmt.Errorf("v%s: after the result of %s() was overwritten by the caller, ParseVector(%q) fails: %v %v", p.V.Name, c.Method, r.S, perr, pan)
		}
		if e := gets(p, q, r.A, "after the result of "+c.Method+"() was overwritten by the caller, ParseVector("+r.S+")"); e != nil {
			return e
		}
		if got, want := q.Vector(), spec.Canon(p.V, r.A); got != want {
			return fmt.Errorf("v%s: after the result of %s() was overwritten by the caller, Vector() = %q, want %q", p.V.Name, c.Method, got, want)
		}
	}
	return nil
}

func decodeInto(ptr any, method string, in []byte) error {
	switch method {
	case "UnmarshalBinary":
		if u, ok := ptr.(encoding.BinaryUnmarshaler); ok {
			return u.UnmarshalBinary(in)
		}
	case "UnmarshalText":
		if u, ok := ptr.(encoding.TextUnmarshaler); ok {
			return u.UnmarshalText(in)
		}
	case "UnmarshalJSON":
		if u, ok := ptr.(json.Unmarshaler); ok {
			return u.UnmarshalJSON(in)
		}
	case "GobDecode":
		if u, ok := ptr.(gobDecoder); ok {
			return u.GobDecode(in)
		}
	}
	return fmt.Errorf("not implemented")
}

func knownDecoder(m string) bool {
	return m == "UnmarshalBinary" || m == "UnmarshalText" || m == "UnmarshalJSON" || m == "GobDecode"
}

// scribble overwrites a slice / map / pointed-to value in place (reverses slices, zeroes elements).
func scribble(v reflect.Value) {
	switch v.Kind() {
	case reflect.Slice:
		n := v.Len()
		for i, j := 0, n-1; i < j; i, j = i+1, j-1 {
			a, b := v.Index(i).Interface(), v.Index(j).Interface()
			if v.Index(i).CanSet() {
				v.Index(i).Set(reflect.ValueOf(b))
				v.Index(j).Set(reflect.ValueOf(a))
			}
		}
	case reflect.Map:
		keys := v.MapKeys()
		if len(keys) >= 2 {
			a, b := v.MapIndex(keys[0]), v.MapIndex(keys[1])
			v.SetMapIndex(keys[0], b)
			v.SetMapIndex(keys[1], a)
		}
	case reflect.Ptr:
		if !v.IsNil() && v.Elem().CanSet() {
			v.Elem().Set(reflect.Zero(v.Elem().Type()))
		}
	}
}

// discoverCases lists what is there to check on this tree, and the names found.
func discoverCases() (cases []DiscoverCase, found []string) {
	for vi, p := range adapt.Pkgs {
		ptr := ptrOf(p.Zero())
		t := reflect.TypeOf(ptr)
		var extra []string
		for i := 0; i < t.NumMethod(); i++ {
			if name := t.Method(i).Name; !knownMethods[name] {
				extra = append(extra, name)
			}
		}
		sort.Strings(extra)
		for _, name := range extra {
			found = append(found, "v"+p.V.Name+"."+name)
			if !knownDecoder(name) {
				m := t.Method(i0(t, name))
				if m.Type.NumIn() == 1 && m.Type.NumOut() >= 1 {
					k := m.Type.Out(0).Kind()
					if k == reflect.Slice || k == reflect.Map || k == reflect.Ptr {
						cases = append(cases, DiscoverCase{Ver: vi, Method: name})
					}
				}
				continue
			}
			// inputs: encoder output of the representative objects with every single-byte change; all strings of
			// up to 2 bytes over a small alphabet; runs of one byte value at the lengths of the encodings
			var seeds [][]byte
			for _, r := range gen.Representatives() {
				if r.Ver != vi {
					continue
				}
				o, err := p.Parse(r.S)
				if err != nil || o == nil {
					continue
				}
				op := ptrOf(o)
				var b []byte
				switch name {
				case "UnmarshalBinary":
					if m, ok := op.(encoding.BinaryMarshaler); ok {
						b, _ = m.MarshalBinary()
					}
				case "UnmarshalText":
					if m, ok := op.(encoding.TextMarshaler); ok {
						b, _ = m.MarshalText()
						seeds = append(seeds, []byte(r.S))
					} else {
						b = []byte(r.S)
					}
				case "UnmarshalJSON":
					if m, ok := op.(json.Marshaler); ok {
						b, _ = m.MarshalJSON()
					} else {
						b, _ = json.Marshal(r.S)
					}
				case "GobDecode":
					if m, ok := op.(gobEncoder); ok {
						b, _ = m.GobEncode()
					}
				}
				if b != nil {
					seeds = append(seeds, b)
				}
			}
			add := func(b []byte) { cases = append(cases, DiscoverCase{Ver: vi, Method: name, Input: gen.BStr(string(b))}) }
			for _, s := range seeds {
				add(s)
				for i := range s {
					for v := 0; v < 256; v++ {
						if byte(v) != s[i] {
							c := append([]byte{}, s...)
							c[i] = byte(v)
							add(c)
						}
					}
				}
				for n := 0; n <= len(s)+2; n++ {
					for _, v := range []byte{0x00, 0xff, 0x55, 0xaa, 0x7f, 0x80} {
						c := make([]byte, n)
						for i := range c {
							c[i] = v
						}
						add(c)
					}
				}
			}
		}
	}
	return cases, found
}

func i0(t reflect.Type, name string) int {
	for i := 0; i < t.NumMethod(); i++ {
		if t.Method(i).Name == name {
			return i
		}
	}
	return 0
}
