package props

import (
	"fmt"
	"math"
	"sync"
	"sync/atomic"
	"testing"

	gocvss20 "github.com/pandatix/go-cvss/20"

	"verifharness/adapt"
	"verifharness/spec"
)

// tenths returns k with s == float64(k)/10 bit-exactly (ok=false otherwise).
func tenths(s float64) (int, bool) {
	if math.IsNaN(s) || math.IsInf(s, 0) {
		return 0, false
	}
	k := math.Round(s * 10)
	if s != k/10 {
		return 0, false
	}
	return int(k), true
}

var (
	v2OracleOnce sync.Once
	v2OracleVal  *spec.V2Oracle
)

// v2O builds the v2 oracle on first use (its memo tables take a few hundred ms
// under the race detector; the cold-start children of C14 must start fast).
func v2O() *spec.V2Oracle {
	v2OracleOnce.Do(func() { v2OracleVal = spec.NewV2Oracle() })
	return v2OracleVal
}

// checkV2Scores is the single-case arbiter of C05: all five quantities of one
// full v2 assignment against the exact oracle.
func checkV2Scores(a spec.Assignment) error {
	o, err := adapt.P20.Build(a)
	if err != nil {
		return fmt.Errorf("cannot build %v: %v", a, err)
	}
	want := v2O().Score(a)
	sets := [][]int{want.Base, want.Temporal, want.Env}
	// each score is asked for twice: a second call on the same object is checked like the first
	for round := 0; round < 2; round++ {
		got := o.Scores()
		for i, name := range adapt.ScoreNames["2.0"] {
			k, ok := tenths(got[i])
			if !ok || !spec.InSet(sets[i], k) {
				return fmt.Errorf("v2 %s of %s = %v (call %d on the object), guide equations give %v tenths", name, spec.Canon(spec.V2, a), got[i], round+1, sets[i])
			}
		}
	}
	sub := o.SubScores()
	if math.Abs(sub[0]-want.Impact) > 1e-9 {
		return fmt.Errorf("v2 Impact of %s = %v, want %v", spec.Canon(spec.V2, a), sub[0], want.Impact)
	}
	if math.Abs(sub[1]-want.Expl) > 1e-9 {
		return fmt.Errorf("v2 Exploitability of %s = %v, want %v", spec.Canon(spec.V2, a), sub[1], want.Expl)
	}
	return nil
}

// v2 class index <-> assignment, mixed radix over V2.Metrics in order (AV slowest).
func v2Radix() []int {
	r := make([]int, len(spec.V2.Metrics))
	for i, m := range spec.V2.Metrics {
		r[i] = len(m.Vals)
	}
	return r
}

func v2Decode(idx int) spec.Assignment {
	a := spec.Assignment{}
	for i := len(spec.V2.Metrics) - 1; i >= 0; i-- {
		m := spec.V2.Metrics[i]
		a[m.Abv] = m.Vals[idx%len(m.Vals)]
		idx /= len(m.Vals)
	}
	return a
}

const v2Total = 139968000

func TestC05(t *testing.T) {
	h := start(t, "C05", "complete enumeration of all 139,968,000 v2.0 metric assignments (each visited once, objects built with Set); a case is non-trivial when at least one environmental metric is not ND; distinct by construction")
	if h.replaying() && h.replay.Kind == "concurrent-classes" {
		doReplay(h, "concurrent-classes", runConcBatch)
		return
	}
	if h.replaying() && h.replay.Kind == "score-history" {
		doReplay(h, "score-history", checkScoreHist)
		return
	}
	if doReplay(h, "v2-assignment", checkV2Scores) {
		return
	}
	runScoreHists(h, 0, env.Scale(6000, 60000))
	h.R.Assume("oracle: guide section 3.2 equations in math/big.Rat with tie sets (spec/score2.go)")
	h.R.Assume("Impact/Exploitability compared with absolute tolerance 1e-9")
	mv := spec.V2.Metrics
	vals := func(i int) []string { return mv[i].Vals }
	// outer tasks: AV AC Au C I A = 729 base combinations
	var mismatchIdx int64 = -1
	var nTies, nNeg, nCapped, nNontriv, nTotal int64
	var tiesB, tiesT int64
	report := func(idx int) {
		for {
			cur := atomic.LoadInt64(&mismatchIdx)
			if cur >= 0 && cur <= int64(idx) {
				return
			}
			if atomic.CompareAndSwapInt64(&mismatchIdx, cur, int64(idx)) {
				return
			}
		}
	}
	perBase := v2Total / 729
	want := int64(v2Total)
	if env.Light {
		want = v2Total / 9
	}
	parallelFor(729, func(b int) {
		if env.Light && b%9 != int(env.Seed%9) {
			return // the light (32-bit) process walks a ninth of the base combinations, rotating with the seed
		}
		var ties, neg, capped, nontriv, total int64
		bi := b
		ia := bi % 3
		bi /= 3
		ii := bi % 3
		bi /= 3
		ic := bi % 3
		bi /= 3
		iau := bi % 3
		bi /= 3
		iac := bi % 3
		bi /= 3
		iav := bi
		av, ac, au, c, i, a := vals(0)[iav], vals(1)[iac], vals(2)[iau], vals(3)[ic], vals(4)[ii], vals(5)[ia]
		var o gocvss20.CVSS20
		must := func(err error) {
			if err != nil {
				panic(err)
			}
		}
		defer func() {
			if r := recover(); r != nil {
				report(b * perBase)
			}
		}()
		must(o.Set("AV", av))
		must(o.Set("AC", ac))
		must(o.Set("Au", au))
		must(o.Set("C", c))
		must(o.Set("I", i))
		must(o.Set("A", a))
		bset := v2O().BaseSet(av, ac, au, c, i, a)
		if len(bset) > 1 {
			atomic.AddInt64(&tiesB, 1)
		}
		wantImp, _ := v2O().Impact(c, i, a).Float64()
		wantExp, _ := v2O().Exploitability(av, ac, au).Float64()
		idx := b * perBase
		in := func(set []int, got float64) bool {
			k, ok := tenths(got)
			return ok && spec.InSet(set, k)
		}
		type adjT struct {
			set    []int
			capped bool
		}
		var adj [4][4][4]adjT
		for cri, cr := range vals(11) {
			for iri, ir := range vals(12) {
				for ari, ar := range vals(13) {
					s, cp := v2O().AdjustedBaseSet(av, ac, au, c, i, a, cr, ir, ar)
					adj[cri][iri][ari] = adjT{s, cp}
				}
			}
		}
		for ei, e := range vals(6) {
			must(o.Set("E", e))
			for ri, rl := range vals(7) {
				must(o.Set("RL", rl))
				for ci, rc := range vals(8) {
					must(o.Set("RC", rc))
					tset := v2O().TemporalSetIdx(bset, ei, ri, ci)
					if len(tset) > 1 {
						atomic.AddInt64(&tiesT, 1)
					}
					for cdi, cdp := range vals(9) {
						must(o.Set("CDP", cdp))
						for tdi, td := range vals(10) {
							must(o.Set("TD", td))
							for cri, cr := range vals(11) {
								must(o.Set("CR", cr))
								for iri, ir := range vals(12) {
									must(o.Set("IR", ir))
									for ari, ar := range vals(13) {
										must(o.Set("AR", ar))
										ad := adj[cri][iri][ari]
										eset := v2O().EnvSetIdx(v2O().TemporalSetIdx(ad.set, ei, ri, ci), cdi, tdi)
										ge := o.EnvironmentalScore()
										good := in(eset, ge) && o.EnvironmentalScore() == ge && in(bset, o.BaseScore()) && in(tset, o.TemporalScore()) &&
											math.Abs(o.Impact()-wantImp) <= 1e-9 && math.Abs(o.Exploitability()-wantExp) <= 1e-9
										if !good {
											report(idx)
										}
										total++
										if len(eset) > 1 {
											ties++
										}
										if ge < 0 {
											neg++
										}
										if ad.capped {
											capped++
										}
										if cdi != 0 || tdi != 0 || cri != 0 || iri != 0 || ari != 0 {
											nontriv++
										}
										idx++
									}
								}
							}
						}
					}
				}
			}
		}
		atomic.AddInt64(&nTies, ties)
		atomic.AddInt64(&nNeg, neg)
		atomic.AddInt64(&nCapped, capped)
		atomic.AddInt64(&nNontriv, nontriv)
		atomic.AddInt64(&nTotal, total)
	})
	h.R.AddExact(nTotal, nNontriv)
	h.R.SetExhaustive(nTotal == v2Total)
	if env.Light {
		h.R.Count("light process: assignments of a ninth of the base combinations", nTotal)
	}
	h.R.Count("assignments", nTotal)
	h.R.Count("environmental result admits two conforming values (exact tie somewhere)", nTies)
	h.R.Count("base combinations with a tie (of 729)", tiesB)
	h.R.Count("base x temporal combinations with a tie (of 72,900)", tiesT)
	h.R.Count("negative environmental result", nNeg)
	h.R.Count("AdjustedImpact capped by min(10,.)", nCapped)
	for _, idx := range []int{0, 1, 4242, 70000000, v2Total - 1, 13371337, 99999999} {
		a := v2Decode(idx)
		w := v2O().Score(a)
		h.R.Sample("class", map[string]any{"index": idx, "vector": spec.Canon(spec.V2, a), "oracle_tenths": map[string]any{"base": w.Base, "temporal": w.Temporal, "environmental": w.Env}})
	}
	if nTotal != want {
		h.R.Inconclusive("enumeration visited %d of %d assignments", nTotal, v2Total)
	}
	if m := atomic.LoadInt64(&mismatchIdx); m >= 0 {
		a := v2Decode(int(m))
		err := safely(checkV2Scores, a)
		if err == nil {
			walkDisagrees(h, "C05", 0, int(m), fmt.Sprintf("index %d (%s)", m, spec.Canon(spec.V2, a)))
		}
		h.fail("v2-assignment", a, err)
	}
}
