package props

import (
	"fmt"
	"runtime"
	"runtime/debug"
	"sync"

	gocvss20 "github.com/pandatix/go-cvss/20"
	gocvss30 "github.com/pandatix/go-cvss/30"
	gocvss31 "github.com/pandatix/go-cvss/31"
	gocvss40 "github.com/pandatix/go-cvss/40"

	"verifharness/spec"
)

// Exact totals over long streams of calls. testing.AllocsPerRun (and allocs/op of a benchmark) makes a
// warm-up call on one input and reports the integer part of the average, so it cannot see a call
// that allocates once in a thousand, nor a cost paid only the first time a value is met. Here the
// collector is switched off, one P is used, and the exact number of heap allocations made by N
// calls is read from the runtime: it must be N x budget (+ a slack of a few allocations for
// whatever the runtime itself does meanwhile; the smallest of up to three measurements counts).

const streamSlack = 4

func streamTotal(n int, f func(i int)) uint64 {
	defer runtime.GOMAXPROCS(runtime.GOMAXPROCS(1))
	defer debug.SetGCPercent(debug.SetGCPercent(-1))
	var m0, m1 runtime.MemStats
	runtime.ReadMemStats(&m0)
	for i := 0; i < n; i++ {
		pads[i&7](f, i)
	}
	runtime.ReadMemStats(&m1)
	return m1.Mallocs - m0.Mallocs
}

// pads: the measured call is made from eight different stack positions (the frames differ by 8 bytes), in
// rotation: a buffer whose usable size depends on the alignment of the caller's frame shows in the total.
func pad1(f func(int), i int) { var p [8]byte; f(i); runtime.KeepAlive(&p) }
func pad2(f func(int), i int) { var p [16]byte; f(i); runtime.KeepAlive(&p) }
func pad3(f func(int), i int) { var p [24]byte; f(i); runtime.KeepAlive(&p) }
func pad4(f func(int), i int) { var p [32]byte; f(i); runtime.KeepAlive(&p) }
func pad5(f func(int), i int) { var p [40]byte; f(i); runtime.KeepAlive(&p) }
func pad6(f func(int), i int) { var p [48]byte; f(i); runtime.KeepAlive(&p) }
func pad7(f func(int), i int) { var p [56]byte; f(i); runtime.KeepAlive(&p) }

var pads = []func(func(int), int){func(f func(int), i int) { f(i) }, pad1, pad2, pad3, pad4, pad5, pad6, pad7}

// parallelTotal: g goroutines make n calls each at the same time (collector off, all Ps); the exact number of
// heap allocations made meanwhile. A buffer that only the first of two overlapping calls gets (a one-slot
// hand-over, a TryLock with a fallback) costs the second one an extra allocation - for ever, not as warm-up.
func parallelTotal(g, n int, f func(i int)) uint64 {
	defer debug.SetGCPercent(debug.SetGCPercent(-1))
	var wg sync.WaitGroup
	start := make(chan struct{})
	for k := 0; k < g; k++ {
		wg.Add(1)
		go func(k int) {
			defer wg.Done()
			<-start
			for i := 0; i < n; i++ {
				f(k*n + i)
			}
		}(k)
	}
	runtime.Gosched()
	var m0, m1 runtime.MemStats
	runtime.ReadMemStats(&m0)
	close(start)
	wg.Wait()
	runtime.ReadMemStats(&m1)
	return m1.Mallocs - m0.Mallocs
}

// sinks: one cache line per goroutine (results must stay observable so that the calls are not optimised away,
// and goroutines must not write to the same variable).
type sinkLine struct {
	o   streamObj
	s   string
	f   float64
	e   error
	pad [64]byte
}

var psinks [65]sinkLine

// StreamCase: one stream measurement.
type StreamCase struct {
	Ver    int    `json:"ver"`
	Func   string `json:"func"`   // parse vector get set scores rating nomenclature
	Stream string `json:"stream"` // same: one vector N times | distinct: N different objects, each met for the first time
	Vector string `json:"vector,omitempty"`
	From   int    `json:"from"` // distinct: first index into the version's prefix space
	N      int    `json:"n"`
	G      int    `json:"goroutines,omitempty"` // > 1: the N calls are made by each of G goroutines at the same time
}

// streamObj is what the four object types have in common.
type streamObj interface {
	Vector() string
	Get(string) (string, error)
	Set(string, string) error
}

type streamAPI struct {
	// local returns a call that works on an object held BY VALUE in a local variable (a copy of the parsed
	// object, or the zero value): kind is set | get | vector | scores. Such an object lives on the stack
	// unless the method lets its receiver escape.
	local  func(o streamObj, kind, abv, val string) func(i int)
	parse  func(s string) (streamObj, error) // stores the result in a typed sink
	scores func(o streamObj) float64
	rating func(float64) (string, error)
	nomen  func(o streamObj) string
}

func streamTarget(vi int) streamAPI {
	switch vi {
	case 0:
		return streamAPI{
			local: func(o streamObj, kind, abv, val string) func(i int) {
				c := o.(*gocvss20.CVSS20)
				switch kind {
				case "set":
					return func(i int) {
						b := *c
						sinkErr = b.Set(abv, val)
						var z gocvss20.CVSS20
						sinkErr = z.Set(abv, val)
						sinkStr, _ = z.Get(abv)
					}
				case "set-temp":
					// the value built per call from a byte slice, as a tokenizer hands it over: the conversion stays on the
					// caller's stack unless Set lets its value argument escape. (The abbreviation does escape, by design:
					// the error for an unknown one carries it - so it is passed as it is.)
					vb, bad := []byte(val + val)[:len(val)], []byte(val+"~~")
					return func(i int) {
						b := *c
						sinkErr = b.Set(abv, string(vb))
						sinkErr = b.Set(abv, string(bad))
					}
				case "get":
					return func(i int) { b := *c; sinkStr, sinkErr = b.Get(abv) }
				case "vector":
					return func(i int) { b := *c; sinkStr = b.Vector() }
				}
				return func(i int) {
					b := *c
					sinkF = b.BaseScore() + b.TemporalScore() + b.EnvironmentalScore() + b.Impact() + b.Exploitability()
				}
			},
			parse: func(s string) (streamObj, error) { c, err := gocvss20.ParseVector(s); return c, err },
			scores: func(o streamObj) float64 {
				c := o.(*gocvss20.CVSS20)
				return c.BaseScore() + c.TemporalScore() + c.EnvironmentalScore() + c.Impact() + c.Exploitability()
			},
		}
	case 1:
		return streamAPI{
			local: func(o streamObj, kind, abv, val string) func(i int) {
				c := o.(*gocvss30.CVSS30)
				switch kind {
				case "set":
					return func(i int) {
						b := *c
						sinkErr = b.Set(abv, val)
						var z gocvss30.CVSS30
						sinkErr = z.Set(abv, val)
						sinkStr, _ = z.Get(abv)
					}
				case "set-temp":
					// the value built per call from a byte slice, as a tokenizer hands it over: the conversion stays on the
					// caller's stack unless Set lets its value argument escape. (The abbreviation does escape, by design:
					// the error for an unknown one carries it - so it is passed as it is.)
					vb, bad := []byte(val + val)[:len(val)], []byte(val+"~~")
					return func(i int) {
						b := *c
						sinkErr = b.Set(abv, string(vb))
						sinkErr = b.Set(abv, string(bad))
					}
				case "get":
					return func(i int) { b := *c; sinkStr, sinkErr = b.Get(abv) }
				case "vector":
					return func(i int) { b := *c; sinkStr = b.Vector() }
				}
				return func(i int) {
					b := *c
					sinkF = b.BaseScore() + b.TemporalScore() + b.EnvironmentalScore() + b.Impact() + b.Exploitability()
				}
			},
			parse: func(s string) (streamObj, error) { c, err := gocvss30.ParseVector(s); return c, err },
			scores: func(o streamObj) float64 {
				c := o.(*gocvss30.CVSS30)
				return c.BaseScore() + c.TemporalScore() + c.EnvironmentalScore() + c.Impact() + c.Exploitability()
			},
			rating: gocvss30.Rating,
		}
	case 2:
		return streamAPI{
			local: func(o streamObj, kind, abv, val string) func(i int) {
				c := o.(*gocvss31.CVSS31)
				switch kind {
				case "set":
					return func(i int) {
						b := *c
						sinkErr = b.Set(abv, val)
						var z gocvss31.CVSS31
						sinkErr = z.Set(abv, val)
						sinkStr, _ = z.Get(abv)
					}
				case "set-temp":
					// the value built per call from a byte slice, as a tokenizer hands it over: the conversion stays on the
					// caller's stack unless Set lets its value argument escape. (The abbreviation does escape, by design:
					// the error for an unknown one carries it - so it is passed as it is.)
					vb, bad := []byte(val + val)[:len(val)], []byte(val+"~~")
					return func(i int) {
						b := *c
						sinkErr = b.Set(abv, string(vb))
						sinkErr = b.Set(abv, string(bad))
					}
				case "get":
					return func(i int) { b := *c; sinkStr, sinkErr = b.Get(abv) }
				case "vector":
					return func(i int) { b := *c; sinkStr = b.Vector() }
				}
				return func(i int) {
					b := *c
					sinkF = b.BaseScore() + b.TemporalScore() + b.EnvironmentalScore() + b.Impact() + b.Exploitability()
				}
			},
			parse: func(s string) (streamObj, error) { c, err := gocvss31.ParseVector(s); return c, err },
			scores: func(o streamObj) float64 {
				c := o.(*gocvss31.CVSS31)
				return c.BaseScore() + c.TemporalScore() + c.EnvironmentalScore() + c.Impact() + c.Exploitability()
			},
			rating: gocvss31.Rating,
		}
	}
	return streamAPI{
		local: func(o streamObj, kind, abv, val string) func(i int) {
			c := o.(*gocvss40.CVSS40)
			switch kind {
			case "set":
				return func(i int) {
					b := *c
					sinkErr = b.Set(abv, val)
					var z gocvss40.CVSS40
					sinkErr = z.Set(abv, val)
					sinkStr, _ = z.Get(abv)
				}
			case "set-temp":
				vb, bad := []byte(val + val)[:len(val)], []byte(val+"~~")
				return func(i int) {
					b := *c
					sinkErr = b.Set(abv, string(vb))
					sinkErr = b.Set(abv, string(bad))
				}
			case "get":
				return func(i int) { b := *c; sinkStr, sinkErr = b.Get(abv) }
			case "vector":
				return func(i int) { b := *c; sinkStr = b.Vector() }
			}
			return func(i int) { b := *c; sinkF = b.Score() }
		},
		parse:  func(s string) (streamObj, error) { c, err := gocvss40.ParseVector(s); return c, err },
		scores: func(o streamObj) float64 { return o.(*gocvss40.CVSS40).Score() },
		rating: gocvss40.Rating,
		nomen:  func(o streamObj) string { return o.(*gocvss40.CVSS40).Nomenclature() },
	}
}

// distinctVectors: n different canonical vectors of version vi starting at index from of its
// (base x temporal/threat x requirements) space, spread over the space by a stride.
func distinctVectors(vi, from, n int) []string {
	sp := newPrefixSpace(vi, fullPrefix(vi))
	stride := nextPrime(sp.size()/70000 + 1)
	out := make([]string, 0, n)
	for i := 0; i < n; i++ {
		out = append(out, spec.Canon(spec.Versions[vi], sp.assignment(((from+i)*stride)%sp.size())))
	}
	return out
}

func checkStream(c StreamCase) error {
	if c.Ver < 0 || c.Ver > 3 || c.N < 1 {
		return nil
	}
	v := spec.Versions[c.Ver]
	api := streamTarget(c.Ver)
	best := uint64(1 << 62)
	var budget uint64
	exact := false
	for attempt := 0; attempt < 3; attempt++ {
		var strs []string
		if c.Stream == "distinct" {
			strs = distinctVectors(c.Ver, c.From+attempt*c.N, c.N)
		} else {
			strs = []string{c.Vector}
		}
		pick := func(i int) string { return strs[i%len(strs)] }
		sk := func(i int) *sinkLine { // the sink of the goroutine that makes call i
			if c.G > 1 {
				return &psinks[1+(i/c.N)%64]
			}
			return &psinks[0]
		}
		var objs []streamObj
		if c.Func != "parse" {
			for _, s := range strs {
				o, err := api.parse(s)
				if err != nil || o == nil {
					return nil // conditional on acceptance (C01)
				}
				objs = append(objs, o)
			}
		} else if _, err := api.parse(pick(0)); err != nil {
			return nil
		}
		obj := func(i int) streamObj { return objs[i%len(objs)] }
		var f func(i int)
		abv := v.Metrics[len(v.Metrics)-1].Abv
		switch c.Func {
		case "parse":
			f, budget = func(i int) { k := sk(i); k.o, k.e = api.parse(pick(i)) }, uint64(c.N)
			api.parse(pick(0)) // the pooled buffer of the v2.0 parser exists from here on
		case "vector":
			f, budget, exact = func(i int) { sk(i).s = obj(i).Vector() }, uint64(c.N), true
		case "get":
			f, budget = func(i int) { k := sk(i); k.s, k.e = obj(i).Get(abv) }, 0
		case "set":
			cur := make([]string, len(objs))
			for i, o := range objs {
				cur[i], _ = o.Get(abv)
			}
			f, budget = func(i int) { sinkErr = obj(i).Set(abv, cur[i%len(cur)]); sinkErr = obj(i).Set(abv, "zz") }, 0
		case "scores":
			f, budget = func(i int) { sk(i).f = api.scores(obj(i)) }, 0
		case "set-temp-local":
			cur, _ := objs[0].Get(abv)
			f, budget = api.local(objs[0], "set-temp", abv, cur), 0
		case "set-local", "get-local", "scores-local":
			cur, _ := objs[0].Get(abv)
			f, budget = api.local(objs[0], c.Func[:len(c.Func)-6], abv, cur), 0
		case "vector-local":
			f, budget, exact = api.local(objs[0], "vector", abv, ""), uint64(c.N), true
		case "rating":
			if api.rating == nil {
				return nil
			}
			f, budget = func(i int) { sinkStr, sinkErr = api.rating(float64(i%120-10) / 10) }, 0
		case "nomenclature":
			if api.nomen == nil {
				return nil
			}
			f, budget = func(i int) { sinkStr = api.nomen(obj(i)) }, 0
		default:
			return nil
		}
		slack := uint64(streamSlack)
		var total uint64
		if c.G > 1 {
			// typed sinks are written by all goroutines: give every goroutine its own work instead
			total = parallelTotal(c.G, c.N, f)
			budget *= uint64(c.G)
			// the goroutines themselves, and a pooled buffer that follows a goroutine to another P
			slack = 256 + uint64(c.G*c.N)/20000
		} else {
			total = streamTotal(c.N, f)
		}
		if total < best {
			best = total
		}
		if best <= budget+slack && (!exact || best+slack >= budget) {
			return nil
		}
	}
	what := fmt.Sprintf("%d calls on the vector %q", c.N, c.Vector)
	if c.G > 1 {
		what = fmt.Sprintf("%d goroutines at the same time, each making ", c.G) + what
	}
	if c.Stream == "distinct" {
		what = fmt.Sprintf("one call on each of %d different objects (canonical vectors %d.. of the v%s space), none met before", c.N, c.From, v.Name)
	}
	word := "at most"
	if exact {
		word = "exactly"
	}
	return fmt.Errorf("v%s %s: %s performed %d heap allocations in total (smallest of 3 measurements, collector off); the budget is %s %d", v.Name, c.Func, what, best, word, budget)
}

// streamCases: every (version, function) pair on a long run over one vector and on a feed of
// different objects.
func streamCases(nSame, nDistinct int, from int) []StreamCase {
	var out []StreamCase
	for vi, v := range spec.Versions {
		full := spec.Assignment{}
		base := spec.Assignment{}
		longest := spec.Assignment{} // the longest spelling of every metric: the longest vector of the version
		for _, m := range v.Metrics {
			full[m.Abv] = m.Vals[len(m.Vals)-1]
			base[m.Abv] = m.Vals[0]
			for _, x := range m.Vals {
				if len(x) >= len(longest[m.Abv]) && (m.Mandatory || x != v.ND) {
					longest[m.Abv] = x
				}
			}
		}
		for _, fn := range []string{"parse", "vector", "get", "set", "scores", "rating", "nomenclature"} {
			for _, a := range []spec.Assignment{base, full, longest} {
				out = append(out, StreamCase{Ver: vi, Func: fn, Stream: "same", Vector: spec.Canon(v, a), N: nSame})
			}
			if fn != "rating" {
				out = append(out, StreamCase{Ver: vi, Func: fn, Stream: "distinct", From: from, N: nDistinct})
			}
		}
		// overlapping calls: several goroutines at the same time, each with its own objects
		for _, fn := range []string{"parse", "vector", "get", "scores"} {
			out = append(out, StreamCase{Ver: vi, Func: fn, Stream: "same", Vector: spec.Canon(v, longest), N: nSame / 2, G: 8})
		}
		// objects held by value in a local variable
		for _, fn := range []string{"set-local", "get-local", "vector-local", "scores-local", "set-temp-local"} {
			out = append(out, StreamCase{Ver: vi, Func: fn, Stream: "same", Vector: spec.Canon(v, longest), N: nSame / 4})
		}
	}
	return out
}
