package props

import (
	"encoding/json"
	"fmt"
	"math"
	"os"
	"os/exec"
	"path/filepath"
	"runtime"
	"runtime/debug"
	"strings"
	"sync"
	"sync/atomic"
	"testing"
	"time"

	"pgregory.net/rapid"

	"verifharness/adapt"
	"verifharness/gen"
	"verifharness/spec"
)

// WOp is one API call of a workload / history.
type WOp struct {
	Kind string   `json:"kind"` // parse set get vector scores rating nomen shared-scores shared-vector
	Ver  int      `json:"ver"`
	S    gen.BStr `json:"s,omitempty"`
	Abv  gen.BStr `json:"abv,omitempty"`
	Val  gen.BStr `json:"val,omitempty"`
	X    uint64   `json:"x_bits,omitempty"`
	K    int      `json:"k,omitempty"` // index of a shared object
}

// actor owns one object per version.
type actor struct {
	objs   [4]adapt.Obj
	shared []adapt.Obj
}

func newActor(shared []adapt.Obj) *actor {
	a := &actor{shared: shared}
	a.reset()
	return a
}

func (a *actor) reset() {
	for i, p := range adapt.Pkgs {
		a.objs[i] = p.Zero()
	}
}

func errText(err error) string {
	if err == nil {
		return "nil"
	}
	return fmt.Sprintf("%T:%s", err, err.Error())
}

func fbits(xs []float64) string {
	var b strings.Builder
	for _, x := range xs {
		fmt.Fprintf(&b, "%x,", math.Float64bits(x))
	}
	return b.String()
}

// exec performs one call and returns a canonical description of everything
// observable about its result.
func (a *actor) exec(op WOp) (res string) {
	defer func() {
		if r := recover(); r != nil {
			res = fmt.Sprintf("panic:%v", r)
		}
	}()
	if op.Ver < 0 || op.Ver > 3 {
		return "bad-op"
	}
	p := adapt.Pkgs[op.Ver]
	o := a.objs[op.Ver]
	switch op.Kind {
	case "parse":
		q, err := p.Parse(string(op.S))
		if q == nil {
			return "parse:nil," + errText(err)
		}
		a.objs[op.Ver] = q // the parsed object becomes the actor's object
		return "parse:" + q.State() + "," + errText(err)
	case "set":
		err := o.Set(string(op.Abv), string(op.Val))
		return "set:" + errText(err) + "," + o.State()
	case "get":
		g, err := o.Get(string(op.Abv))
		return "get:" + g + "," + errText(err)
	case "vector":
		return "vector:" + o.Vector()
	case "scores":
		return "scores:" + fbits(o.Scores()) + fbits(o.SubScores())
	case "nomen":
		return "nomen:" + o.Nomenclature()
	case "rating":
		if p.Rating == nil {
			return "rating:n/a"
		}
		r, err := p.Rating(math.Float64frombits(op.X))
		return "rating:" + r + "," + errText(err)
	case "shared-scores":
		if len(a.shared) == 0 {
			return "none"
		}
		s := a.shared[((op.K%len(a.shared))+len(a.shared))%len(a.shared)]
		return "sscores:" + fbits(s.Scores())
	case "shared-vector":
		if len(a.shared) == 0 {
			return "none"
		}
		s := a.shared[((op.K%len(a.shared))+len(a.shared))%len(a.shared)]
		g, _ := s.Get("AV")
		return "svector:" + s.Vector() + g
	}
	return "bad-op"
}

// drawOp draws an API call; dirty=true emphasises what dirties shared state.
var opKinds = []string{"parse", "parse", "parse", "set", "get", "vector", "vector", "scores", "rating", "nomen", "shared-scores", "shared-vector"}

func drawOp(rt *rapid.T, dirty bool) WOp { return drawOpFocus(rt, dirty, "", -1) }

// drawOpFocus draws a call; a non-empty kind / non-negative version pins them
// (focused workloads: every goroutine hammers the same function).
func drawOpFocus(rt *rapid.T, dirty bool, kind string, ver int) WOp {
	vi := ver
	if vi < 0 {
		vi = gen.Version(rt)
		if dirty && rapid.IntRange(0, 1).Draw(rt, "v2bias") == 0 {
			vi = 0
		}
	}
	v := spec.Versions[vi]
	kinds := opKinds
	op := WOp{Kind: kind, Ver: vi}
	if kind == "" {
		op.Kind = kinds[rapid.IntRange(0, len(kinds)-1).Draw(rt, "kind")]
	}
	switch op.Kind {
	case "parse":
		switch rapid.IntRange(0, 5).Draw(rt, "parsesrc") {
		case 0, 1, 2:
			op.S = gen.BStr(gen.ValidVector(rt, vi).S)
		case 3:
			s, _ := gen.Mutate(rt, gen.ValidVector(rt, vi))
			op.S = gen.BStr(s)
		case 4: // over-long: more than 14 parts
			b := gen.ValidVector(rt, 0)
			op.S = gen.BStr(b.S + strings.Repeat("/"+gen.ValidVector(rt, 0).S, rapid.IntRange(1, 3).Draw(rt, "rep")))
		case 5:
			op.S = gen.AnyString(rt).S
		}
	case "set":
		s := gen.SetOp(rt, vi)
		op.Abv, op.Val = s.Abv, s.Val
	case "get":
		op.Abv = gen.BStr(v.Metrics[rapid.IntRange(0, len(v.Metrics)-1).Draw(rt, "m")].Abv)
		if rapid.IntRange(0, 9).Draw(rt, "unk") == 0 {
			op.Abv = "ZZ"
		}
	case "rating":
		op.X = math.Float64bits(float64(rapid.IntRange(-5, 105).Draw(rt, "k")) / 10)
	case "shared-scores", "shared-vector":
		op.K = rapid.IntRange(0, 7).Draw(rt, "k")
	}
	return op
}

// ---- (a) history independence -------------------------------------------

// HistCase: the probe is evaluated on a fresh object before and after a history.
type HistCase struct {
	Setup   []WOp `json:"setup"` // brings the probe's receiver into its state (re-run on a fresh actor each time)
	Probe   WOp   `json:"probe"`
	History []WOp `json:"history"` // runs on another actor in between
}

func sharedObjects() []adapt.Obj {
	var out []adapt.Obj
	for _, s := range []string{
		"AV:N/AC:L/Au:N/C:P/I:P/A:C/E:U/RL:OF/RC:C/CDP:MH/TD:H/CR:M/IR:M/AR:M",
		"CVSS:3.0/AV:N/AC:H/PR:L/UI:N/S:C/C:H/I:L/A:L/E:F/RL:O/RC:C/CR:H/IR:L/AR:M/MAV:A/MC:H",
		"CVSS:3.1/AV:L/AC:L/PR:H/UI:R/S:U/C:L/I:H/A:N/E:P/RL:W/RC:R/CR:L/MS:C/MI:L",
		"CVSS:4.0/AV:N/AC:L/AT:P/PR:L/UI:P/VC:H/VI:L/VA:N/SC:L/SI:H/SA:N/E:P/CR:M/IR:L/MAV:A/MSI:S/S:P/U:Amber",
	} {
		for _, p := range adapt.Pkgs {
			if o, err := p.Parse(s); err == nil && o != nil {
				out = append(out, o)
			}
		}
	}
	return out
}

func checkHistoryIndependence(c HistCase) error {
	shared := sharedObjects()
	run := func() string {
		a := newActor(shared)
		for _, op := range c.Setup {
			a.exec(op)
		}
		return a.exec(c.Probe) + "|" + a.objs[c.Probe.Ver%4].State()
	}
	r1 := run()
	b := newActor(shared)
	for _, op := range c.History {
		b.exec(op)
	}
	r2 := run()
	if r1 != r2 {
		return fmt.Errorf("%s(v%s) gives %q before and %q after an unrelated history of %d calls", c.Probe.Kind, spec.Versions[c.Probe.Ver%4].Name, r1, r2, len(c.History))
	}
	// anchor parse probes to the reference parser, so that a result that is
	// consistently wrong after some earlier history is caught too
	if c.Probe.Kind == "parse" {
		p := adapt.Pkgs[c.Probe.Ver]
		s := string(c.Probe.S)
		want, member := spec.Parse(p.V, s)
		o, err, pan := p.SafeParse(s)
		if pan != nil {
			return fmt.Errorf("ParseVector(%q) panicked after a history: %v", s, pan)
		}
		if member != (err == nil) {
			return fmt.Errorf("after a history v%s ParseVector(%q) err=%v but well-formed=%v", p.V.Name, s, err, member)
		}
		if member {
			if e := gets(p, o, want, "after a history ParseVector("+s+")"); e != nil {
				return e
			}
		}
	}
	return nil
}

// ---- (b) immutability of Vector() strings, (c) aliasing ---------------------

type AliasCase struct {
	Objs    []gen.Valid `json:"objects"`
	History []WOp       `json:"history"`
	Set     gen.Op      `json:"set"`
}

func checkAliasing(c AliasCase) error {
	type kept struct{ s, clone string }
	var ks []kept
	var objs []adapt.Obj
	for _, v := range c.Objs {
		p := adapt.Pkgs[v.Ver]
		o, err, pan := p.SafeParse(v.S)
		if pan != nil || err != nil || o == nil {
			continue
		}
		objs = append(objs, o)
		s := o.Vector()
		ks = append(ks, kept{s, strings.Clone(s)})
		// copy independence
		cp := o.Clone()
		before := cp.State()
		o.Set(string(c.Set.Abv), string(c.Set.Val))
		for _, m := range p.V.Metrics {
			o.Set(m.Abv, m.Vals[len(m.Vals)-1])
		}
		if cp.State() != before {
			return fmt.Errorf("v%s: a copy of an object changed when the original was modified (%s -> %s)", p.V.Name, before, cp.State())
		}
		// two parses of the same string are independent objects
		p1, _, _ := p.SafeParse(v.S)
		p2, _, _ := p.SafeParse(v.S)
		if p1 == nil || p2 == nil {
			return fmt.Errorf("v%s: ParseVector(%q) succeeded once and failed later", p.V.Name, v.S)
		}
		if p1.Same(p2) {
			return fmt.Errorf("v%s: two ParseVector(%q) calls returned the same pointer", p.V.Name, v.S)
		}
		st := p2.State()
		for _, m := range p.V.Metrics {
			p1.Set(m.Abv, m.Vals[len(m.Vals)-1])
		}
		p3, _, _ := p.SafeParse(v.S)
		if p2.State() != st || p3 == nil || p3.State() != st {
			return fmt.Errorf("v%s: mutating one parse result of %q affected another (%s / %s, want %s)", p.V.Name, v.S, p2.State(), p3.State(), st)
		}
		ks = append(ks, kept{cp.Vector(), ""})
		ks[len(ks)-1].clone = strings.Clone(ks[len(ks)-1].s)
	}
	// a result must not be tied to the identity (address) of an argument string that may since have
	// been freed: parse a heap string, drop it, collect, then parse other strings of the same length
	for _, v := range c.Objs {
		if err := checkAddressReuse(v); err != nil {
			return err
		}
	}
	a := newActor(objs)
	for _, op := range c.History {
		a.exec(op)
	}
	for _, o := range objs {
		_ = o.Vector()
	}
	runtime.GC()
	for _, o := range objs {
		_ = o.Vector()
	}
	runtime.GC()
	for _, k := range ks {
		if k.s != k.clone {
			return fmt.Errorf("a string returned by Vector() changed afterwards: was %q, now %q", k.clone, k.s)
		}
	}
	return nil
}

// sameLengthVariants returns valid vectors of the same version and byte length as v.S whose first
// metric carries each of its other (equally long) values.
func sameLengthVariants(v gen.Valid) []string {
	ver := spec.Versions[v.Ver]
	if len(v.Written) == 0 {
		return nil
	}
	var out []string
	for _, abv := range v.Written[:min(3, len(v.Written))] {
		m := ver.Metric(abv)
		for _, val := range m.Vals {
			if val != v.A[abv] && len(val) == len(v.A[abv]) {
				a := spec.Assignment(v.A).Clone()
				a[abv] = val
				out = append(out, spec.Spell(ver, a, v.Written))
			}
		}
	}
	return out
}

var sinkHeapStrings []string

func checkAddressReuse(v gen.Valid) error {
	p := adapt.Pkgs[v.Ver]
	vars := sameLengthVariants(v)
	if len(vars) == 0 {
		return nil
	}
	func() {
		s1 := strings.Clone(v.S) // a heap string that dies at the end of this closure
		p.SafeParse(s1)
	}()
	runtime.GC()
	sinkHeapStrings = sinkHeapStrings[:0]
	for i := 0; i < 4; i++ {
		for _, w := range vars {
			s2 := strings.Clone(w) // same size class: may reuse the freed slot
			sinkHeapStrings = append(sinkHeapStrings, s2)
			want, ok := spec.Parse(p.V, s2)
			o, err, pan := p.SafeParse(s2)
			if pan != nil || !ok || err != nil || o == nil {
				continue // C01 owns acceptance
			}
			if e := gets(p, o, want, "ParseVector("+s2+") after a string of the same length was parsed, dropped and collected"); e != nil {
				return e
			}
		}
	}
	return nil
}

// ---- (g) long runs: counters that wrap ------------------------------------------------------

// LongRun: a few calls repeated N times (N around 2^8 and 2^16) on the package, then a probe that
// must give the result it gives in a fresh state and, for parses, the reference parser's result.
type LongRun struct {
	Repeat []WOp `json:"repeat"`
	N      int   `json:"n"`
	Probes []WOp `json:"probes"`
}

func checkLongRun(c LongRun) error {
	shared := sharedObjects()
	fresh := func(op WOp) string { return newActor(shared).exec(op) }
	before := make([]string, len(c.Probes))
	for i, op := range c.Probes {
		before[i] = fresh(op)
	}
	a := newActor(shared)
	for i := 0; i < c.N; i++ {
		for _, op := range c.Repeat {
			a.exec(op)
		}
	}
	for i, op := range c.Probes {
		if got := fresh(op); got != before[i] {
			return fmt.Errorf("%s(v%s %q) gives %q in a fresh process state and %q after %d repetitions of %d other calls", op.Kind, spec.Versions[op.Ver%4].Name, string(op.S), before[i], got, c.N, len(c.Repeat))
		}
		if op.Kind == "parse" {
			p := adapt.Pkgs[op.Ver]
			want, member := spec.Parse(p.V, string(op.S))
			o, err, pan := p.SafeParse(string(op.S))
			if pan != nil {
				return fmt.Errorf("ParseVector(%q) panicked after a long run: %v", string(op.S), pan)
			}
			if member != (err == nil) {
				return fmt.Errorf("after %d repetitions v%s ParseVector(%q) err=%v but well-formed=%v", c.N, p.V.Name, string(op.S), err, member)
			}
			if member {
				if e := gets(p, o, want, "after a long run ParseVector("+string(op.S)+")"); e != nil {
					return e
				}
			}
		}
	}
	return nil
}

// ---- (h) exact call counts from a purged pool -------------------------------------------------

// ExactCount: after the package's pools have been purged (two GC cycles) and with the collector off
// and one P, exactly N parses of vectors without optional metrics are made, then the probes are
// parsed. N is 2^8-1, 2^8, 2^16-1 or 2^16: a generation counter or fill level kept in recycled state
// wraps or overflows exactly there.
type ExactCount struct {
	Ver    int        `json:"ver"`
	N      int        `json:"n"`
	Warm   gen.BStr   `json:"warm"`
	Probes []gen.BStr `json:"probes"`
}

func checkExactCount(c ExactCount) error {
	if c.Ver < 0 || c.Ver > 3 || c.N < 0 || c.N > 1<<17 {
		return nil
	}
	p := adapt.Pkgs[c.Ver]
	type res struct {
		state string
		err   string
	}
	eval := func(s string) res {
		o, err, pan := p.SafeParse(s)
		if pan != nil {
			return res{"panic", fmt.Sprint(pan)}
		}
		if o == nil {
			return res{"nil", errText(err)}
		}
		return res{o.State(), errText(err)}
	}
	want := make([]res, len(c.Probes))
	for i, s := range c.Probes {
		want[i] = eval(string(s))
	}
	oldProcs := runtime.GOMAXPROCS(1)
	runtime.GC()
	runtime.GC()
	oldGC := debug.SetGCPercent(-1)
	defer func() {
		debug.SetGCPercent(oldGC)
		runtime.GOMAXPROCS(oldProcs)
	}()
	warm := string(c.Warm)
	for i := 0; i < c.N; i++ {
		p.Parse(warm)
	}
	for i, s := range c.Probes {
		got := eval(string(s))
		if member := spec.Member(p.V, string(s)); member != (got.err == "nil") && got.state != "panic" {
			return fmt.Errorf("v%s ParseVector(%q) as call number %d after the pools were purged: err=%s but well-formed=%v", p.V.Name, string(s), c.N+i+1, got.err, member)
		}
		if got != want[i] {
			return fmt.Errorf("v%s ParseVector(%q) gives %v normally and %v as call number %d after the pools were purged (the %d calls before it parsed %q)", p.V.Name, string(s), want[i], got, c.N+i+1, c.N, warm)
		}
	}
	return nil
}

func exactCountCases() []ExactCount {
	var out []ExactCount
	for vi, v := range spec.Versions {
		var warm string
		var probes []gen.BStr
		for _, r := range gen.Representatives() {
			if r.Ver != vi {
				continue
			}
			if warm == "" && len(r.Written) == len(v.Base()) {
				warm = r.S
			}
		}
		for _, r := range gen.Representatives() {
			if r.Ver == vi && r.S != warm {
				probes = append(probes, gen.BStr(r.S)) // vectors with optional metrics never seen during the warm-up
			}
		}
		probes = append(probes, gen.BStr(warm[:len(warm)-4]), gen.BStr(warm)) // a truncated vector, and the warm-up vector itself
		for _, n := range []int{255, 256, 65535, 65536} {
			// each probe in turn is the first call after the warm-up
			for k := range probes {
				rot := append(append([]gen.BStr{}, probes[k:]...), probes[:k]...)
				out = append(out, ExactCount{Ver: vi, N: n, Warm: gen.BStr(warm), Probes: rot})
				if n > 1000 && k >= 1 {
					break // the long warm-ups are expensive: two rotations each
				}
			}
		}
	}
	return out
}

// ---- (d) interleaving -------------------------------------------------------

type Workload struct {
	// cold starts: the parent's results of the same calls, filled in before the children run. BStr, not string: the
	// results may contain arbitrary bytes (an error that quotes an invalid abbreviation), which encoding/json would
	// replace by U+FFFD on the way to the child
	Expected [][]gen.BStr `json:"expected_in_parent,omitempty"`
	Procs    int          `json:"gomaxprocs"`
	Rounds   int          `json:"rounds"`
	G        [][]WOp      `json:"goroutines"`
}

func (w Workload) expected(shared []adapt.Obj) [][]string {
	out := make([][]string, len(w.G))
	for g, ops := range w.G {
		a := newActor(shared)
		for _, op := range ops {
			out[g] = append(out[g], a.exec(op))
		}
	}
	return out
}

// runWorkload executes the workload concurrently and compares every result of
// every round with the sequential execution.
func runWorkload(w Workload) error {
	if len(w.G) == 0 {
		return nil
	}
	shared := sharedObjects()
	want := w.expected(shared)
	procs := w.Procs
	if procs < 1 {
		procs = 1
	}
	old := runtime.GOMAXPROCS(procs)
	defer runtime.GOMAXPROCS(old)
	rounds := w.Rounds
	if rounds < 1 {
		rounds = 1
	}
	var wg sync.WaitGroup
	start := make(chan struct{})
	errs := make([]error, len(w.G))
	for g := range w.G {
		wg.Add(1)
		go func(g int) {
			defer wg.Done()
			a := newActor(shared)
			<-start
			for r := 0; r < rounds; r++ {
				a.reset()
				for i, op := range w.G[g] {
					got := a.exec(op)
					if got != want[g][i] && errs[g] == nil {
						errs[g] = fmt.Errorf("goroutine %d round %d call %d %s(v%s %q): concurrent result %q differs from the sequential result %q (GOMAXPROCS=%d, %d goroutines)", g, r, i, op.Kind, spec.Versions[op.Ver%4].Name, string(op.S), got, want[g][i], procs, len(w.G))
					}
				}
			}
		}(g)
	}
	close(start)
	wg.Wait()
	for _, e := range errs {
		if e != nil {
			return e
		}
	}
	return nil
}

func drawWorkload(rt *rapid.T, procs int) Workload {
	ng := rapid.IntRange(2, 24).Draw(rt, "goroutines")
	w := Workload{Procs: procs, Rounds: rapid.IntRange(1, 6).Draw(rt, "rounds")}
	// half of the workloads are focused: all goroutines call the same function of the
	// same package with different arguments, many times (contention on one code path)
	focus, fver, maxOps := "", -1, 40
	if rapid.Bool().Draw(rt, "focused") {
		focus = opKinds[rapid.IntRange(0, len(opKinds)-1).Draw(rt, "focus")]
		fver = gen.Version(rt)
		if focus == "rating" && fver == 0 {
			fver = rapid.IntRange(1, 3).Draw(rt, "ratingver")
		}
		if focus == "nomen" {
			fver = 3
		}
		maxOps = 120
		w.Rounds = rapid.IntRange(4, 24).Draw(rt, "frounds")
	}
	for g := 0; g < ng; g++ {
		n := rapid.IntRange(1, maxOps).Draw(rt, "nops")
		var ops []WOp
		for i := 0; i < n; i++ {
			if focus != "" && (focus == "vector" || focus == "scores" || focus == "nomen" || focus == "get") && i%4 == 0 {
				// keep the receiver changing so that results differ between calls
				ops = append(ops, drawOpFocus(rt, true, "set", fver))
				continue
			}
			ops = append(ops, drawOpFocus(rt, true, focus, fver))
		}
		w.G = append(w.G, ops)
	}
	return w
}

func (w Workload) contention() (v2parsers, vectorers, ops int) {
	for _, g := range w.G {
		p, v := false, false
		for _, op := range g {
			ops++
			if op.Kind == "parse" && op.Ver == 0 {
				p = true
			}
			if op.Kind == "vector" || op.Kind == "shared-vector" {
				v = true
			}
		}
		if p {
			v2parsers++
		}
		if v {
			vectorers++
		}
	}
	return
}

// ---- (f) cold start: the very first calls of a fresh process, made concurrently ------------

// runWorkloadConcurrentFirst executes the workload concurrently BEFORE any sequential call has
// been made in this process, then computes the sequential results and compares. Only meaningful in
// a fresh process (TestC14Cold): it exposes lazily initialised package state that is published
// before it is complete.
func runWorkloadConcurrentFirst(w Workload) error {
	procs := w.Procs
	if procs < 1 {
		procs = 1
	}
	if os.Getenv("VERIF_COLD_KEEP_PROCS") == "" {
		runtime.GOMAXPROCS(procs) // otherwise the whole child stays on the single P it was started with
	}
	got := make([][]string, len(w.G))
	var wg sync.WaitGroup
	start := make(chan struct{})
	for g := range w.G {
		wg.Add(1)
		go func(g int) {
			defer wg.Done()
			a := &actor{}
			<-start
			a.reset()
			for _, op := range w.G[g] {
				got[g] = append(got[g], a.exec(op))
			}
		}(g)
	}
	close(start)
	wg.Wait()
	want := w.expected(nil)
	for g := range w.G {
		for i := range w.G[g] {
			op := w.G[g][i]
			if got[g][i] != want[g][i] {
				return fmt.Errorf("cold start: goroutine %d call %d %s(v%s %q) made concurrently as one of the first calls of the process returned %q, the same call made afterwards returns %q", g, i, op.Kind, spec.Versions[op.Ver%4].Name, string(op.S), got[g][i], want[g][i])
			}
			// what the parent process (other GOMAXPROCS, other CPU set, long warmed up) got for the same call
			if g < len(w.Expected) && i < len(w.Expected[g]) && got[g][i] != string(w.Expected[g][i]) {
				return fmt.Errorf("cold start: goroutine %d call %d %s(v%s %q) returns %q in this fresh process (GOMAXPROCS=%d at start, %d CPUs) and %q in the parent process", g, i, op.Kind, spec.Versions[op.Ver%4].Name, string(op.S), got[g][i], runtime.GOMAXPROCS(0), runtime.NumCPU(), string(w.Expected[g][i]))
			}
		}
	}
	return nil
}

// TestC14Cold is the child side of the cold-start check; it does nothing unless
// VERIF_COLD_FILE names a workload file.
func TestC14Cold(t *testing.T) {
	path := os.Getenv("VERIF_COLD_FILE")
	if path == "" {
		t.Skip("child side of the C14 cold-start check")
	}
	b, err := os.ReadFile(path)
	if err != nil {
		t.Fatalf("HARNESS-ERROR %v", err)
	}
	var w Workload
	if err := json.Unmarshal(b, &w); err != nil {
		t.Fatalf("HARNESS-ERROR %v", err)
	}
	if err := runWorkloadConcurrentFirst(w); err != nil {
		t.Fatalf("COLD-VIOLATION %v", err)
	}
}

var coldSeq, coldInconclusive int
var hotPairSeq [4]int

// checkCold runs the workload in fresh child processes (this very test binary).
func checkCold(w Workload) error {
	dir := filepath.Join(env.Out, ".work-cold")
	os.MkdirAll(dir, 0o755)
	coldSeq++
	path := filepath.Join(dir, fmt.Sprintf("cold-%d-%d-%d.json", os.Getpid(), env.Shard, coldSeq))
	w.Expected = nil
	for _, row := range w.expected(nil) { // the results of the same calls in this (the parent) process
		var r []gen.BStr
		for _, x := range row {
			r = append(r, gen.BStr(x))
		}
		w.Expected = append(w.Expected, r)
	}
	b, _ := json.Marshal(w)
	if err := os.WriteFile(path, b, 0o644); err != nil {
		return nil
	}
	defer os.Remove(path)
	reps := w.Rounds
	if reps < 1 {
		reps = 1
	}
	for i := 0; i < reps; i++ {
		cmd := exec.Command(os.Args[0], "-test.run", "^TestC14Cold$", "-test.count", "1", "-test.timeout", "120s")
		// the race runtime sleeps 1 s at exit by default; every goroutine of the child has been joined by then
		cmd.Env = append(os.Environ(), "VERIF_COLD_FILE="+path, "VERIF_REPLAY=", "GORACE=atexit_sleep_ms=20")
		// the processes of a case start with different GOMAXPROCS settings in their environment (1, 2, inherited):
		// package initialisers that size tables or pick strategies from it see a small value there
		// and, for every second case (rotating with the seed), a value whose low byte is zero (a count kept in 8 bits)
		switch i % 6 {
		case 0:
			cmd.Env = append(cmd.Env, "GOMAXPROCS=1", "VERIF_COLD_KEEP_PROCS=1")
		case 1:
			cmd.Env = append(cmd.Env, "GOMAXPROCS=256", "VERIF_COLD_KEEP_PROCS=1")
		case 3:
			cmd.Env = append(cmd.Env, "GOMAXPROCS=2")
		case 4:
			cmd.Env = append(cmd.Env, "GOMAXPROCS=3", "VERIF_COLD_KEEP_PROCS=1")
		}
		out, err := cmd.CombinedOutput()
		if err != nil {
			txt := string(out)
			// only a verdict of the child counts: a property mismatch, a race report or a panic in the
			// code under test. A child that could not be started, was killed, or hit a harness error
			// says nothing about the property.
			if _, exited := err.(*exec.ExitError); !exited || strings.Contains(txt, "HARNESS-ERROR") ||
				!(strings.Contains(txt, "COLD-VIOLATION") || strings.Contains(txt, "DATA RACE") || strings.Contains(txt, "panic:")) {
				coldInconclusive++
				continue
			}
			if len(txt) > 1500 {
				txt = txt[:1500]
			}
			return fmt.Errorf("fresh process %d of %d running %d goroutines concurrently from its first call failed (%v):\n%s", i+1, reps, len(w.G), err, txt)
		}
	}
	return nil
}

// ---- (e) hot loops: one pure function hammered by many goroutines ----------

// HotCase: every goroutine calls the same function of one package in a tight loop over a few
// generated arguments and compares each result with the one computed sequentially beforehand.
// Millions of calls per case: this is what exposes a lost update in a non-atomic cache or memo.
type HotCase struct {
	Kind  string     `json:"kind"` // rating parse vector scores get
	Ver   int        `json:"ver"`
	Strs  []gen.BStr `json:"strings,omitempty"` // parse: vectors; vector/scores/get: vectors to build the shared objects from
	Xs    []uint64   `json:"x_bits,omitempty"`  // rating
	Abv   string     `json:"abv,omitempty"`     // get
	G     int        `json:"goroutines"`
	Iters int        `json:"iterations"`
	Procs int        `json:"gomaxprocs"`
}

func runHot(c HotCase) error {
	if c.Ver < 0 || c.Ver > 3 || c.G < 1 {
		return nil
	}
	p := adapt.Pkgs[c.Ver]
	type exp struct {
		o    adapt.Obj
		err  error
		s    string
		f    []float64
		none bool
	}
	var calls []func() exp
	var big []bool
	switch c.Kind {
	case "rating":
		if p.Rating == nil {
			return nil
		}
		for _, b := range c.Xs {
			x := math.Float64frombits(b)
			calls = append(calls, func() exp { s, err := p.Rating(x); return exp{s: s, err: err} })
		}
	case "parse":
		for _, bs := range c.Strs {
			str := string(bs)
			calls = append(calls, func() exp { o, err := p.Parse(str); return exp{o: o, err: err, none: o == nil} })
			big = append(big, len(str) > 60000)
		}
	case "vector", "scores", "get":
		for _, bs := range c.Strs {
			o, err := p.Parse(string(bs))
			if err != nil || o == nil {
				continue
			}
			switch c.Kind {
			case "vector":
				calls = append(calls, func() exp { return exp{s: o.Vector()} })
			case "scores":
				calls = append(calls, func() exp { return exp{f: o.Scores()} })
			case "get":
				abv := c.Abv
				calls = append(calls, func() exp { s, err := o.Get(abv); return exp{s: s, err: err} })
			}
		}
	}
	if len(calls) == 0 {
		return nil
	}
	for len(big) < len(calls) {
		big = append(big, false)
	}
	same := func(a, b exp) bool {
		if a.s != b.s || a.none != b.none || (a.err == nil) != (b.err == nil) || len(a.f) != len(b.f) {
			return false
		}
		if a.err != nil && a.err != b.err && a.err.Error() != b.err.Error() {
			return false
		}
		if a.o != nil && (b.o == nil || !a.o.Eq(b.o)) {
			return false
		}
		for i := range a.f {
			if math.Float64bits(a.f[i]) != math.Float64bits(b.f[i]) {
				return false
			}
		}
		return true
	}
	want := make([]exp, len(calls))
	for i, f := range calls {
		want[i] = f()
	}
	procs := c.Procs
	if procs < 1 {
		procs = 1
	}
	old := runtime.GOMAXPROCS(procs)
	defer runtime.GOMAXPROCS(old)
	var wg sync.WaitGroup
	start := make(chan struct{})
	errs := make([]error, c.G)
	var stop int32
	for g := 0; g < c.G; g++ {
		wg.Add(1)
		go func(g int) {
			defer wg.Done()
			defer func() {
				if r := recover(); r != nil {
					errs[g] = fmt.Errorf("goroutine %d panicked: %v", g, r)
				}
			}()
			<-start
			for i := 0; i < c.Iters && atomic.LoadInt32(&stop) == 0; i++ {
				k := (i + g) % len(calls)
				if big[k] && i%32 != 0 {
					k = 0 // the over-long input takes its turn only now and then (it is a hundred times as expensive)
				}
				if got := calls[k](); !same(want[k], got) {
					errs[g] = fmt.Errorf("%s (v%s), argument %d, called concurrently by %d goroutines (GOMAXPROCS=%d): got (%q, %v, %v), the sequential result is (%q, %v, %v)", c.Kind, p.V.Name, k, c.G, procs, got.s, got.err, got.f, want[k].s, want[k].err, want[k].f)
					atomic.StoreInt32(&stop, 1)
					return
				}
			}
		}(g)
	}
	close(start)
	wg.Wait()
	for _, e := range errs {
		if e != nil {
			return e
		}
	}
	return nil
}

func drawHot(rt *rapid.T, kind string, ver int, procs int, itersScale int) HotCase {
	c := HotCase{Kind: kind, Ver: ver, Procs: procs, G: rapid.IntRange(2, 16).Draw(rt, "goroutines")}
	n := rapid.IntRange(3, 6).Draw(rt, "nargs")
	switch c.Kind {
	case "rating":
		// arguments from different bands of the scale (and outside it), so that a mixed-up result is visible
		// one argument from every band of the scale (and one on each side of it), so that a mixed-up result is visible
		for _, b := range [][2]int{{0, 0}, {1, 39}, {40, 69}, {70, 89}, {90, 100}, {-3, -1}, {101, 103}} {
			c.Xs = append(c.Xs, math.Float64bits(float64(rapid.IntRange(b[0], b[1]).Draw(rt, "k"))/10))
		}
		c.Iters = 1500000 * itersScale // cheap calls: a lost update needs millions of them
		if c.G < 8 {
			c.G += 8
		}
	case "parse":
		if procs == 2 && (env.Tier == "thorough" || (int(env.Seed)+ver)%2 == 0) {
			// a crowd (quick tier: two of the four versions, rotating with the seed): far more goroutines than
			// Ps, each running long enough to be preempted inside the call, so that more calls are in flight
			// at once than any table sized from GOMAXPROCS (8 x 16 = 128 here) expects
			c.G = rapid.IntRange(450, 600).Draw(rt, "crowdsize")
			c.Procs = 4
		}
		for i := 0; i < n; i++ {
			if rapid.IntRange(0, 3).Draw(rt, "bad") == 0 {
				s, _ := gen.Mutate(rt, gen.ValidVector(rt, c.Ver))
				c.Strs = append(c.Strs, gen.BStr(s))
			} else {
				c.Strs = append(c.Strs, gen.BStr(gen.ValidVector(rt, c.Ver).S))
			}
		}
		// one input of more than 64 KiB (a rejected one: the valid vector followed by junk): code that treats
		// "too large to keep" inputs specially runs next to ordinary parses
		c.Strs = append(c.Strs, gen.BStr(gen.ValidVector(rt, c.Ver).S+"/ZZ:"+strings.Repeat("N", 66000)))
		c.Iters = 25000 * itersScale
		if c.G > 100 {
			c.Iters = 10000 * itersScale
		}
	default:
		for i := 0; i < n; i++ {
			c.Strs = append(c.Strs, gen.BStr(gen.ValidVector(rt, c.Ver).S))
		}
		v := spec.Versions[c.Ver]
		c.Abv = v.Metrics[rapid.IntRange(0, len(v.Metrics)-1).Draw(rt, "abv")].Abv
		c.Iters = 25000 * itersScale
	}
	return c
}

// ---- (k) stack positions ----------------------------------------------------------------------

// StackCase: each exported function is called at the bottom of a recursion of every depth 0..Depths-1, each
// time on a fresh goroutine (whose stack starts small), and must return what it returns at depth 0. At some
// depths the goroutine's stack has to grow INSIDE the call; code that keeps the address of one of its own
// stack variables as an integer writes to the old stack from then on.
type StackCase struct {
	Ver    int      `json:"ver"`
	Vec    gen.BStr `json:"vector"`
	Depths int      `json:"depths"`
}

//go:noinline
func recurse(d int, f func()) {
	var pad [40]byte
	if d == 0 {
		f()
	} else {
		recurse(d-1, f)
	}
	runtime.KeepAlive(&pad)
}

func checkStack(c StackCase) error {
	if c.Ver < 0 || c.Ver > 3 || c.Depths < 1 || c.Depths > 20000 {
		return nil
	}
	p := adapt.Pkgs[c.Ver]
	vec := string(c.Vec)
	o, err := p.Parse(vec)
	if err != nil || o == nil {
		return nil
	}
	abv := p.V.Metrics[len(p.V.Metrics)-1].Abv
	cur, _ := o.Get(abv)
	fns := []struct {
		name string
		f    func() string
	}{
		{"Vector()", func() string { return o.Vector() }},
		{"ParseVector", func() string {
			q, err := p.Parse(vec)
			if q == nil {
				return "nil," + errText(err)
			}
			return q.State() + "," + errText(err)
		}},
		{"the scoring methods", func() string { return fbits(o.Scores()) + fbits(o.SubScores()) }},
		{"Get", func() string { g, err := o.Get(abv); return g + "," + errText(err) }},
		{"Set", func() string { q := o.Clone(); err := q.Set(abv, cur); return q.State() + "," + errText(err) }},
		{"Nomenclature", func() string { return o.Nomenclature() }},
	}
	for _, fn := range fns {
		want := fn.f()
		for d := 0; d < c.Depths; d++ {
			var got string
			done := make(chan struct{})
			go func() {
				defer close(done)
				defer func() {
					if r := recover(); r != nil {
						got = fmt.Sprintf("panic: %v", r)
					}
				}()
				recurse(d, func() { got = fn.f() })
			}()
			<-done
			if got != want {
				return fmt.Errorf("v%s %s on %q returns %q when called %d frames deep on a fresh goroutine, and %q otherwise", p.V.Name, fn.name, vec, got, d, want)
			}
		}
	}
	return nil
}

// ---- (j) idle periods ---------------------------------------------------------------------------

// IdleCase: a set of calls is made, the process then makes NO call into the library for Pause, and the
// same calls are made again: the results must be identical (the first call after a pause is the one a
// time-stamped cache, a timer that drops idle state or a rate limiter treats differently). Error values
// and Vector() strings obtained before the pause are kept across it and across a burst of further
// failing calls, and must still read the same.
type IdleCase struct {
	PauseMs int   `json:"pause_ms"`
	Ops     []WOp `json:"calls"`
}

func checkIdle(c IdleCase) error {
	if c.PauseMs < 0 || c.PauseMs > 600000 {
		return nil
	}
	shared := sharedObjects()
	run := func() []string {
		a := newActor(shared)
		out := make([]string, len(c.Ops))
		for i, op := range c.Ops {
			out[i] = a.exec(op)
		}
		return out
	}
	type heldErr struct {
		err  error
		text string
		what string
	}
	var held []heldErr
	var heldStr, heldCopy []string
	for vi, p := range adapt.Pkgs {
		o := p.Zero()
		for k := 0; k < 6; k++ {
			abv := fmt.Sprintf("Q%d%d", vi, k)
			_, e1 := o.Get(abv)
			e2 := o.Set(abv, "N")
			_, e3 := p.Parse(p.V.Header + abv + ":N")
			for _, e := range []error{e1, e2, e3} {
				if e != nil {
					held = append(held, heldErr{e, e.Error(), fmt.Sprintf("v%s, unknown abbreviation %q", p.V.Name, abv)})
				}
			}
		}
		s := o.Vector()
		heldStr, heldCopy = append(heldStr, s), append(heldCopy, string(append([]byte{}, s...)))
	}
	before := run()
	time.Sleep(time.Duration(c.PauseMs) * time.Millisecond)
	after := run()
	for i := range before {
		if before[i] != after[i] {
			op := c.Ops[i]
			return fmt.Errorf("%s (v%s, call %d of the set) gives %q, and %q when it is made again after %d ms without any call into the library", op.Kind, spec.Versions[op.Ver%4].Name, i, before[i], after[i], c.PauseMs)
		}
	}
	// a burst of further failing calls, then the kept values are read again
	for vi, p := range adapt.Pkgs {
		o := p.Zero()
		for k := 0; k < 40; k++ {
			abv := fmt.Sprintf("R%d%d", vi, k)
			o.Get(abv)
			o.Set(abv, "N")
			p.Parse(p.V.Header + abv + ":N")
			o.Vector()
		}
	}
	for _, hd := range held {
		if got := hd.err.Error(); got != hd.text {
			return fmt.Errorf("an error obtained before a pause of %d ms (%s) read %q then and reads %q after the pause and 40 further failing calls", c.PauseMs, hd.what, hd.text, got)
		}
	}
	for i := range heldStr {
		if heldStr[i] != heldCopy[i] {
			return fmt.Errorf("a string returned by Vector() before a pause of %d ms changed: was %q, now %q", c.PauseMs, heldCopy[i], heldStr[i])
		}
	}
	third := run()
	for i := range before {
		if before[i] != third[i] {
			op := c.Ops[i]
			return fmt.Errorf("%s (v%s, call %d of the set) gives %q before a pause of %d ms and %q on the second round after it", op.Kind, spec.Versions[op.Ver%4].Name, i, before[i], c.PauseMs, third[i])
		}
	}
	return nil
}

// ---- (i) retention: results kept for a long time while the package keeps working -------------

// Retention: G goroutines (1 = sequential) each make N calls of one kind on a stream of different
// objects / vectors of one version and keep the last W results, each with a private copy made at
// once (Vector(): the bytes of the string; ParseVector: a clone of the object). A result is compared
// with its copy when it leaves the window and at the end. A buffer or an object slot that the package
// hands out a second time - because an offset wrapped after tens of thousands of calls, or because two
// callers met at the moment a shared block was replaced - shows as a kept result that changed.
type Retention struct {
	Kind  string     `json:"kind"` // vector | parse
	Ver   int        `json:"ver"`
	Strs  []gen.BStr `json:"vectors"` // the stream cycles over these (different lengths) in an order derived from Step
	Step  int        `json:"step"`
	G     int        `json:"goroutines"`
	N     int        `json:"calls_per_goroutine"`
	W     int        `json:"window"`
	Procs int        `json:"gomaxprocs"`
}

func runRetention(c Retention) error {
	if c.Ver < 0 || c.Ver > 3 || c.G < 1 || c.W < 1 || len(c.Strs) == 0 {
		return nil
	}
	p := adapt.Pkgs[c.Ver]
	var objs []adapt.Obj
	var strs []string
	for _, bs := range c.Strs {
		strs = append(strs, string(bs))
		if o, err := p.Parse(string(bs)); err == nil && o != nil {
			objs = append(objs, o)
		}
	}
	if c.Kind == "vector" && len(objs) == 0 {
		return nil
	}
	procs := c.Procs
	if procs < 1 {
		procs = 1
	}
	old := runtime.GOMAXPROCS(procs)
	defer runtime.GOMAXPROCS(old)
	var wg sync.WaitGroup
	start := make(chan struct{})
	errs := make([]error, c.G)
	var stop int32
	for g := 0; g < c.G; g++ {
		wg.Add(1)
		go func(g int) {
			defer wg.Done()
			defer func() {
				if r := recover(); r != nil {
					errs[g] = fmt.Errorf("goroutine %d panicked: %v", g, r)
				}
			}()
			type kept struct {
				s    string
				copy []byte
				o    adapt.Obj
				oc   adapt.Obj
				call int
			}
			win := make([]kept, c.W)
			verify := func(k kept, now int) error {
				if k.copy != nil && k.s != string(k.copy) {
					return fmt.Errorf("v%s Vector() returned %q at call %d of goroutine %d; %d calls later the same string reads %q (%d goroutines, GOMAXPROCS=%d)", p.V.Name, string(k.copy), k.call, g, now-k.call, k.s, c.G, procs)
				}
				if k.o != nil && !k.o.Eq(k.oc) {
					return fmt.Errorf("v%s ParseVector returned an object in state %s at call %d of goroutine %d; %d calls later it is in state %s although nobody touched it (%d goroutines, GOMAXPROCS=%d)", p.V.Name, k.oc.State(), k.call, g, now-k.call, k.o.State(), c.G, procs)
				}
				return nil
			}
			<-start
			idx := g * 7
			for i := 0; i < c.N && atomic.LoadInt32(&stop) == 0; i++ {
				slot := i % c.W
				if err := verify(win[slot], i); err != nil {
					errs[g] = err
					atomic.StoreInt32(&stop, 1)
					return
				}
				idx += c.Step + i%3 // a drifting walk over the stream: the sequence of lengths does not repeat with a short period
				if c.Kind == "vector" {
					s := objs[idx%len(objs)].Vector()
					win[slot] = kept{s: s, copy: append([]byte{}, s...), call: i}
				} else {
					o, err := p.Parse(strs[idx%len(strs)])
					if err != nil || o == nil {
						win[slot] = kept{}
						continue
					}
					win[slot] = kept{o: o, oc: o.Clone(), call: i}
				}
			}
			for _, k := range win {
				if err := verify(k, c.N); err != nil {
					errs[g] = err
					atomic.StoreInt32(&stop, 1)
					return
				}
			}
		}(g)
	}
	close(start)
	wg.Wait()
	for _, e := range errs {
		if e != nil {
			return e
		}
	}
	return nil
}

func drawRetention(rt *rapid.T, kind string, ver int, g int) Retention {
	c := Retention{Kind: kind, Ver: ver, G: g, W: 4096, Procs: 16, Step: rapid.IntRange(1, 50).Draw(rt, "step")}
	// a stream with many different lengths: valid vectors of every layout, and for the parser a share of rejected ones
	for i, n := 0, rapid.IntRange(40, 80).Draw(rt, "nvectors"); i < n; i++ {
		v := gen.ValidVector(rt, ver)
		if kind == "parse" && rapid.IntRange(0, 4).Draw(rt, "bad") == 0 {
			s, _ := gen.Mutate(rt, v)
			c.Strs = append(c.Strs, gen.BStr(s))
			continue
		}
		c.Strs = append(c.Strs, gen.BStr(v.S))
	}
	if g == 1 {
		c.N = env.Scale(150000, 1500000)
		c.Procs = 1
	} else {
		c.N = env.Scale(30000, 200000)
	}
	if env.Phase == "plain" {
		c.N *= 4 // calls are several times cheaper without the race detector
	}
	if env.Phase == "g126" {
		c.N /= 2
	}
	return c
}

func TestC14(t *testing.T) {
	h := start(t, "C14", "six generators: (a) a probe call (any exported function, generated arguments and receiver state) evaluated before and after an unrelated generated history that dirties shared state (14-part and over-long v2 vectors, failing parses, many Vector() calls) - results must be identical and parse results agree with the reference parser; (b,c) Vector() strings kept with a clone across further calls and two GC cycles, copies and repeated parses mutated independently; (d) workloads of 2-24 goroutines x up to 40 calls x up to 6 rounds on own objects and shared read-only objects, compared call by call with the sequential execution at GOMAXPROCS 1, 2, 4 and 16, (e) hot loops: for every (function, version) pair one pure function hammered by 2-16 goroutines for up to 24 million calls per case against precomputed results; (f) cold starts: for every (function, version) pair fresh child processes whose first calls are made concurrently by 16-48 goroutines and compared with the same calls made afterwards; the whole binary built with -race (a race report fails the check); non-trivial = a workload in which at least two goroutines run the v2.0 parser (the pool) or Vector() concurrently, or a probe/history pair whose history contains a v2.0 parse; distinct by case")
	h.R.Assume("the Go scheduler is not controlled: interleavings are sampled (preemption, four GOMAXPROCS values); the race detector generalises from the observed runs to unsynchronised access pairs")
	// plain: the second process of this check, built without the race detector (under which sync.Pool
	// drops a quarter of its entries at random, so pooled state never grows old): it runs the
	// sequential families and the retention runs, not the interleaving families
	plain := env.Phase == "plain" || env.Phase == "g126"
	n := env.Scale(6000, 20000)
	if env.Shards > 1 {
		n = env.Scale(6000, 40000)
	}
	Rapid(h, "history-independence", n, func(rt *rapid.T) HistCase {
		var c HistCase
		for i, k := 0, rapid.IntRange(0, 6).Draw(rt, "nsetup"); i < k; i++ {
			c.Setup = append(c.Setup, drawOp(rt, false))
		}
		c.Probe = drawOp(rt, false)
		for i, k := 0, rapid.IntRange(1, 30).Draw(rt, "nhist"); i < k; i++ {
			c.History = append(c.History, drawOp(rt, true))
		}
		v2 := 0
		for _, op := range c.History {
			if op.Kind == "parse" && op.Ver == 0 {
				v2++
			}
		}
		key := ""
		if v2 > 0 {
			key = fmt.Sprintf("H%v", c)
		}
		h.R.Case(fmt.Sprintf("history-independence probe=%s v2-parses-in-history=%s", c.Probe.Kind, bucket(v2)), key)
		if h.R.WantSample("history-independence") {
			h.R.Sample("history-independence", c)
		}
		return c
	}, checkHistoryIndependence)
	Rapid(h, "aliasing", env.Scale(300, 3000), func(rt *rapid.T) AliasCase {
		var c AliasCase
		for i, k := 0, rapid.IntRange(1, 6).Draw(rt, "nobj"); i < k; i++ {
			c.Objs = append(c.Objs, gen.ValidVector(rt, gen.Version(rt)))
		}
		for i, k := 0, rapid.IntRange(0, 20).Draw(rt, "nhist"); i < k; i++ {
			c.History = append(c.History, drawOp(rt, true))
		}
		c.Set = gen.SetOp(rt, c.Objs[0].Ver)
		h.R.Case("aliasing / immutable Vector() strings", fmt.Sprintf("A%v", c))
		if h.R.WantSample("aliasing") {
			h.R.Sample("aliasing", c)
		}
		return c
	}, checkAliasing)
	// (d) each workload runs in a subtest so that a race report is attributed to it
	nw := env.Scale(80, 1000)
	if env.Shards > 1 {
		nw = env.Scale(150, 800)
	}
	seq := 0
	for _, procs := range []int{1, 2, 4, 16} {
		procs := procs
		if plain {
			break
		}
		if h.replaying() {
			if procs != 1 {
				continue
			}
		}
		check := func(w Workload) error {
			reps := 1
			if h.replaying() {
				reps = 50
			}
			var err error
			seq++
			ok := h.t.Run(fmt.Sprintf("w%d", seq), func(st *testing.T) {
				for i := 0; i < reps && err == nil; i++ {
					err = runWorkload(w)
				}
			})
			if err != nil {
				return err
			}
			if !ok {
				return fmt.Errorf("the race detector reported a data race while running this workload (GOMAXPROCS=%d, %d goroutines); see the log for the access pair", w.Procs, len(w.G))
			}
			return nil
		}
		if doReplay(h, "workload", check) {
			continue
		}
		Rapid(h, "workload", nw, func(rt *rapid.T) Workload {
			w := drawWorkload(rt, procs)
			p, v, ops := w.contention()
			key := ""
			if p >= 2 || v >= 2 {
				key = fmt.Sprintf("W%v", w)
			}
			h.R.Case(fmt.Sprintf("workload GOMAXPROCS=%d goroutines=%s v2-parsing-goroutines=%s", procs, bucket(len(w.G)), bucket(p)), key)
			h.R.Count("workload API calls executed concurrently (x rounds)", int64(ops*w.Rounds))
			if h.R.WantSample(fmt.Sprintf("workload-%d", procs)) {
				small := w
				if len(small.G) > 2 {
					small.G = small.G[:2]
				}
				h.R.Sample(fmt.Sprintf("workload-%d", procs), map[string]any{"gomaxprocs": procs, "goroutines": len(w.G), "rounds": w.Rounds, "first_two_goroutines": small.G})
			}
			return w
		}, check)
	}
	// (h) exact counts (deterministic family; sequential, so no subtest is needed)
	if env.Shards <= 1 {
		ec := exactCountCases()
		if !doReplay(h, "exact-count", checkExactCount) {
			for _, c := range ec {
				h.R.Pending("exact-count", c)
				if err := safely(checkExactCount, c); err != nil {
					h.fail("exact-count", c, err)
				}
			}
			h.R.AddExact(int64(len(ec)), int64(len(ec)))
			h.R.Count("exact-count cases (pools purged, N in {255,256,65535,65536} warm-up parses, then probes)", int64(len(ec)))
			h.R.Sample("exact-count", ec[len(ec)-1])
		}
	}
	// (g) long runs
	Rapid(h, "long-run", env.Scale(12, 120), func(rt *rapid.T) LongRun {
		vi := gen.Version(rt)
		c := LongRun{N: []int{255, 256, 257, 65535, 65536, 65537, 70000}[rapid.IntRange(0, 6).Draw(rt, "n")]}
		// the repeated calls: parses of a few vectors WITHOUT optional metrics (so that some package state
		// stays untouched for the whole run), sometimes a rejected one, sometimes a Vector()/score call
		for i, k := 0, rapid.IntRange(1, 3).Draw(rt, "nrep"); i < k; i++ {
			switch rapid.IntRange(0, 5).Draw(rt, "repkind") {
			case 0:
				s, _ := gen.Mutate(rt, gen.ValidVector(rt, vi))
				c.Repeat = append(c.Repeat, WOp{Kind: "parse", Ver: vi, S: gen.BStr(s)})
			case 1:
				c.Repeat = append(c.Repeat, WOp{Kind: []string{"vector", "scores"}[rapid.IntRange(0, 1).Draw(rt, "ro")], Ver: vi})
			default:
				r := gen.Representatives()
				var base []gen.Valid
				for _, x := range r {
					if x.Ver == vi && (x.Layout == "base" || len(x.Written) == len(spec.Versions[vi].Base())) {
						base = append(base, x)
					}
				}
				c.Repeat = append(c.Repeat, WOp{Kind: "parse", Ver: vi, S: gen.BStr(base[rapid.IntRange(0, len(base)-1).Draw(rt, "basevec")].S)})
			}
		}
		// the probes: vectors WITH optional metrics, a truncated one, and a random call
		c.Probes = append(c.Probes, WOp{Kind: "parse", Ver: vi, S: gen.BStr(gen.ValidVector(rt, vi).S)})
		for _, r := range gen.Representatives() {
			if r.Ver == vi {
				c.Probes = append(c.Probes, WOp{Kind: "parse", Ver: vi, S: gen.BStr(r.S)})
			}
		}
		full := gen.ValidVector(rt, vi).S
		c.Probes = append(c.Probes, WOp{Kind: "parse", Ver: vi, S: gen.BStr(full[:rapid.IntRange(0, len(full)).Draw(rt, "cut")])}, drawOp(rt, false))
		h.R.Case(fmt.Sprintf("long run v%s n=%d", spec.Versions[vi].Name, c.N), fmt.Sprintf("LONG%v", c))
		h.R.Count("calls made inside long runs", int64(c.N*len(c.Repeat)))
		if h.R.WantSample("long-run") {
			h.R.Sample("long-run", map[string]any{"n": c.N, "repeat": c.Repeat, "probes": len(c.Probes)})
		}
		return c
	}, checkLongRun)
	// (e) hot loops: every (function, version) pair at two GOMAXPROCS values
	type hcombo struct {
		kind string
		ver  int
	}
	var hcombos []hcombo
	for _, k := range []string{"parse", "vector", "scores", "get"} {
		for v := 0; v < 4; v++ {
			hcombos = append(hcombos, hcombo{k, v})
		}
	}
	hcombos = append(hcombos, hcombo{"rating", 1}, hcombo{"rating", 2}, hcombo{"rating", 3})
	nh := env.Scale(1, 10)
	if env.Shards > 1 {
		nh = env.Scale(1, 4)
	}
	for _, hc := range hcombos {
		hc := hc
		if plain && env.Phase != "plain" {
			continue
		}
		// the plain side process runs the hot loops too (result comparison only, 8 times as many calls: without the
		// race instrumentation calls are short enough to overlap often): a file that is compiled only when the race
		// detector is off is not in the main process at all, and a window of a few nanoseconds is rarely hit under -race
		for _, procs := range []int{2, 16} {
			procs := procs
			if h.replaying() && (procs != 2 || hc != hcombos[0]) {
				continue
			}
			check := func(c HotCase) error {
				var err error
				seq++
				ok := h.t.Run(fmt.Sprintf("hot%d", seq), func(st *testing.T) { err = runHot(c) })
				if err != nil {
					return err
				}
				if !ok {
					return fmt.Errorf("the race detector reported a data race in hot loop %s (v%s, GOMAXPROCS=%d, %d goroutines)", c.Kind, spec.Versions[c.Ver%4].Name, c.Procs, c.G)
				}
				return nil
			}
			Rapid(h, "hot-loop", nh, func(rt *rapid.T) HotCase {
				c := drawHot(rt, hc.kind, hc.ver, procs, 1)
				h.R.Case(fmt.Sprintf("hot loop GOMAXPROCS=%d %s v%s", procs, c.Kind, spec.Versions[c.Ver].Name), fmt.Sprintf("HOT%v", c))
				h.R.Count("hot-loop calls executed concurrently", int64(c.G*c.Iters))
				if h.R.WantSample("hot-" + c.Kind) {
					h.R.Sample("hot-"+c.Kind, c)
				}
				return c
			}, check)
		}
	}
	// (i) retention: Vector() for every version sequentially and concurrently; the parsers for two versions
	// rotating with the seed in the quick tier
	for ver := 0; ver < 4; ver++ {
		for _, kind := range []string{"vector", "parse"} {
			for _, g := range []int{1, 16} {
				ver, kind, g := ver, kind, g
				if h.replaying() && (ver != 0 || kind != "vector" || g != 1) {
					continue
				}
				if kind == "parse" && env.Tier != "thorough" && !plain && (int(env.Seed)+ver)%2 != 0 {
					continue
				}
				check := func(c Retention) error {
					var err error
					seq++
					ok := h.t.Run(fmt.Sprintf("keep%d", seq), func(st *testing.T) { err = runRetention(c) })
					if err != nil {
						return err
					}
					if !ok {
						return fmt.Errorf("the race detector reported a data race in the retention run %s (v%s, %d goroutines)", c.Kind, spec.Versions[c.Ver%4].Name, c.G)
					}
					return nil
				}
				Rapid(h, "retention", env.Scale(1, 3), func(rt *rapid.T) Retention {
					c := drawRetention(rt, kind, ver, g)
					h.R.Case(fmt.Sprintf("retention %s v%s goroutines=%d", kind, spec.Versions[ver].Name, g), fmt.Sprintf("KEEP%v", c))
					h.R.Count("results kept and re-read after thousands of further calls", int64(c.G*c.N))
					if h.R.WantSample("retention-" + kind) {
						h.R.Sample("retention-"+kind, map[string]any{"version": spec.Versions[ver].Name, "goroutines": c.G, "calls_per_goroutine": c.N, "window": c.W, "stream_vectors": len(c.Strs)})
					}
					return c
				}, check)
			}
		}
	}
	// error values shared between goroutines (race build)
	if !plain && !h.replaying() {
		ok := h.t.Run("sharederr", func(st *testing.T) {
			if err := sharedErrors(); err != nil {
				st.Errorf("%v", err)
			}
		})
		if !ok {
			h.fail("shared-error", map[string]string{"what": "one error value of every kind read by 8 goroutines at the same time"}, fmt.Errorf("an error value read by several goroutines at the same time gives different texts or is reported as a data race (see the log)"))
		}
		h.R.Count("error values read concurrently by 8 goroutines", 16)
	}
	// (n) score streams: many different objects in flight
	for ver := 0; ver < 4; ver++ {
		ver := ver
		if h.replaying() && ver != 0 {
			continue
		}
		if env.Phase == "g126" {
			break
		}
		check := func(c ScoreStream) error {
			var err error
			seq++
			ok := h.t.Run(fmt.Sprintf("stream%d", seq), func(st *testing.T) { err = runScoreStream(c) })
			if err != nil {
				return err
			}
			if !ok {
				return fmt.Errorf("the race detector reported a data race while %d goroutines scored a pool of v%s objects", c.G, spec.Versions[c.Ver%4].Name)
			}
			return nil
		}
		Rapid(h, "score-stream", 1, func(rt *rapid.T) ScoreStream {
			c := ScoreStream{Ver: ver, N: env.Scale(6000, 30000), G: 8, Rounds: 1, From: rapid.IntRange(0, 3000).Draw(rt, "from")}
			if plain {
				c.N, c.G, c.Rounds = 30000, 16, env.Scale(3, 8)
			}
			h.R.Case(fmt.Sprintf("score stream v%s", spec.Versions[ver].Name), fmt.Sprintf("SS%v", c))
			h.R.Count("scoring calls on a large pool of different objects by concurrent goroutines", int64(c.N*c.G*c.Rounds))
			return c
		}, check)
	}
	// (p) hot pairs: two objects, one method, tight loops (plain side process)
	if env.Phase == "plain" || h.replaying() {
		for ver := 0; ver < 4; ver++ {
			ver := ver
			if h.replaying() && ver != 0 {
				continue
			}
			Rapid(h, "hot-pair", env.Scale(2, 8), func(rt *rapid.T) HotPair {
				c := HotPair{Ver: ver, Iters: []int{2000000, 2000000, 2000000, 600000}[ver]}
				// the first case: the lowest and the highest representative; later ones generated
				reps := gen.Representatives()
				var mine []gen.Valid
				for _, r := range reps {
					if r.Ver == ver {
						mine = append(mine, r)
					}
				}
				if hotPairSeq[ver] == 0 {
					c.VecA, c.VecB = gen.BStr(mine[1].S), gen.BStr(mine[2].S)
				} else {
					c.VecA, c.VecB = gen.BStr(gen.ValidVector(rt, ver).S), gen.BStr(gen.ValidVector(rt, ver).S)
				}
				hotPairSeq[ver]++
				h.R.Case(fmt.Sprintf("hot pair v%s", spec.Versions[ver].Name), fmt.Sprintf("HP%v", c))
				h.R.Count("scoring calls in hot pairs", int64(c.Iters)*int64(2*runtime.GOMAXPROCS(0)))
				return c
			}, runHotPair)
		}
	}
	// (o) one call repeated 2^24 + 16 times (plain side process: no race instrumentation, so it takes seconds)
	if env.Phase == "plain" || h.replaying() {
		var rcs []RepeatCase
		reps := gen.Representatives()
		for i, r := range reps {
			if i == len(reps)-1 || reps[i+1].Ver != r.Ver {
				rcs = append(rcs, RepeatCase{Ver: r.Ver, Kind: "scores", Vec: gen.BStr(r.S), Total: 1<<24 + 16})
				if env.Tier == "thorough" {
					rcs = append(rcs, RepeatCase{Ver: r.Ver, Kind: "get", Vec: gen.BStr(r.S), Total: 1<<24 + 16}, RepeatCase{Ver: r.Ver, Kind: "rating", Vec: gen.BStr(r.S), Total: 1<<24 + 16},
						RepeatCase{Ver: r.Ver, Kind: "parse-empty", Vec: gen.BStr(r.S), Total: 1<<31 + 64}, RepeatCase{Ver: r.Ver, Kind: "parse-empty", Vec: gen.BStr(r.S), Total: 1 << 31}) // together 2^32 + 64
				}
			}
		}
		if !doReplay(h, "repeat", runRepeat) {
			for _, c := range rcs {
				h.R.Pending("repeat", c)
				if err := safely(runRepeat, c); err != nil {
					h.fail("repeat", c, err)
				}
			}
			h.R.AddExact(int64(len(rcs)), int64(len(rcs)))
			h.R.Count("cases of one call repeated 2^24+16 times (thorough: also ParseVector(\"\") 2^31 and 2^32 times)", int64(len(rcs)))
		}
	}
	// (m) neighbours: objects stored by value side by side, each worked on by its own goroutine
	if !plain {
		for ver := 0; ver < 4; ver++ {
			ver := ver
			if h.replaying() && ver != 0 {
				continue
			}
			check := func(c NeighbourCase) error {
				var err error
				seq++
				ok := h.t.Run(fmt.Sprintf("nb%d", seq), func(st *testing.T) { err = runNeighbours(c) })
				if err != nil {
					return err
				}
				if !ok {
					return fmt.Errorf("the race detector reported a data race between goroutines that each work on their own element of an array of v%s objects", spec.Versions[c.Ver%4].Name)
				}
				return nil
			}
			Rapid(h, "neighbours", env.Scale(2, 10), func(rt *rapid.T) NeighbourCase {
				c := NeighbourCase{Ver: ver, Iters: 3000}
				for i, n := 0, rapid.IntRange(4, 12).Draw(rt, "n"); i < n; i++ {
					c.Vecs = append(c.Vecs, gen.BStr(gen.ValidVector(rt, ver).S))
				}
				h.R.Case(fmt.Sprintf("neighbours v%s", spec.Versions[ver].Name), fmt.Sprintf("NB%v", c))
				h.R.Count("calls made on array elements whose neighbours are written concurrently", int64(len(c.Vecs)*c.Iters))
				return c
			}, check)
		}
	}
	// (l) recovered panics of calls on a nil receiver must not poison the package
	if plain || h.replaying() {
		var pc []PoisonCase
		reps := gen.Representatives()
		for i, r := range reps {
			if i == len(reps)-1 || reps[i+1].Ver != r.Ver {
				pc = append(pc, PoisonCase{Ver: r.Ver, Vec: gen.BStr(r.S)})
			}
		}
		if !doReplay(h, "poison", checkPoison) {
			for _, c := range pc {
				h.R.Pending("poison", c)
				if err := safely(checkPoison, c); err != nil {
					h.fail("poison", c, err)
				}
			}
			h.R.AddExact(int64(len(pc)), int64(len(pc)))
			h.R.Count("recovered-panic cases (every method on a nil receiver, then ordinary calls under a 30 s watchdog)", int64(len(pc)))
		}
	}
	// (k) stack positions: every version, a base-only and a long vector
	if plain || h.replaying() {
		// (sequential: run by the side processes built without the race detector)
		var sc []StackCase
		reps := gen.Representatives()
		for i, r := range reps {
			if i == 0 || i == len(reps)-1 || reps[i-1].Ver != r.Ver || reps[i+1].Ver != r.Ver { // first and last of each version
				sc = append(sc, StackCase{Ver: r.Ver, Vec: gen.BStr(r.S), Depths: env.Scale(3000, 6000) * 4 / 4})
			}
		}
		if !doReplay(h, "stack", checkStack) {
			for _, c := range sc {
				h.R.Pending("stack", c)
				if err := safely(checkStack, c); err != nil {
					h.fail("stack", c, err)
				}
			}
			h.R.AddExact(int64(len(sc)), int64(len(sc)))
			h.R.Count("stack-position cases (6 functions x every recursion depth, each on a fresh goroutine)", int64(len(sc)))
			h.R.Count("calls made at the bottom of a recursion on a fresh goroutine", int64(len(sc)*6*sc[0].Depths))
		}
	}
	// (j) idle periods: in the plain side process only - it is done long before the race-instrumented main
	// process, so the pauses cost no wall-clock time
	if env.Phase == "plain" || h.replaying() {
		pauses := []int{1100, 3300, 5300, 10500}
		if env.Tier == "thorough" {
			pauses = append(pauses, 21000, 31000, 61000, 125000, 305000)
		}
		if h.replaying() {
			pauses = pauses[:1]
		}
		for _, ms := range pauses {
			ms := ms
			Rapid(h, "idle", 1, func(rt *rapid.T) IdleCase {
				c := IdleCase{PauseMs: ms}
				// fixed mid-severity vectors first (the first case rapid draws is its minimal one: all-first values)
				for ver, vec := range []string{
					"AV:N/AC:L/Au:N/C:P/I:P/A:C/E:U/RL:OF/RC:C/CDP:MH/TD:H/CR:M/IR:M/AR:M",
					"CVSS:3.0/AV:N/AC:H/PR:L/UI:N/S:C/C:H/I:L/A:L/E:F/RL:O/RC:C/CR:H/IR:L/AR:M/MAV:A/MC:H",
					"CVSS:3.1/AV:L/AC:L/PR:H/UI:R/S:U/C:L/I:H/A:N/E:P/RL:W/RC:R/CR:L/MS:C/MI:L",
					"CVSS:4.0/AV:N/AC:L/AT:P/PR:L/UI:P/VC:H/VI:L/VA:N/SC:L/SI:H/SA:N/E:P/CR:M/IR:L/MAV:A/MSI:S/S:P/U:Amber",
				} {
					c.Ops = append(c.Ops, WOp{Kind: "parse", Ver: ver, S: gen.BStr(vec)}, WOp{Kind: "scores", Ver: ver}, WOp{Kind: "vector", Ver: ver}, WOp{Kind: "nomen", Ver: ver})
				}
				for _, r := range gen.Representatives() {
					c.Ops = append(c.Ops, WOp{Kind: "parse", Ver: r.Ver, S: gen.BStr(r.S)}, WOp{Kind: "scores", Ver: r.Ver}, WOp{Kind: "vector", Ver: r.Ver})
				}
				// every (function, version) pair several times, on different vectors
				for rep := 0; rep < 3; rep++ {
					for ver := 0; ver < 4; ver++ {
						c.Ops = append(c.Ops, WOp{Kind: "parse", Ver: ver, S: gen.BStr(gen.ValidVector(rt, ver).S)})
						for _, k := range []string{"scores", "vector", "get", "set", "nomen", "rating"} {
							c.Ops = append(c.Ops, drawOpFocus(rt, false, k, ver))
						}
						s, _ := gen.Mutate(rt, gen.ValidVector(rt, ver))
						c.Ops = append(c.Ops, WOp{Kind: "parse", Ver: ver, S: gen.BStr(s)})
					}
				}
				h.R.Case(fmt.Sprintf("idle period of %d ms between two rounds of the same calls", ms), fmt.Sprintf("IDLE%d%v", ms, c.Ops))
				h.R.Count("calls repeated after an idle period", int64(len(c.Ops)))
				if h.R.WantSample("idle") {
					h.R.Sample("idle", map[string]any{"pause_ms": ms, "calls": len(c.Ops), "first_calls": c.Ops[:4]})
				}
				return c
			}, checkIdle)
		}
	}
	// (f) cold starts: every (function, version) combination gets its own fresh processes
	type combo struct {
		kind string
		ver  int
		ver2 int // >= 0: every second goroutine works with this version instead (two packages meet in a fresh process)
	}
	var combos []combo
	for _, k := range []string{"parse", "vector", "scores", "get", "set"} {
		for v := 0; v < 4; v++ {
			combos = append(combos, combo{k, v, -1})
		}
	}
	combos = append(combos, combo{"rating", 1, -1}, combo{"rating", 2, -1}, combo{"rating", 3, -1}, combo{"nomen", 3, -1})
	// two version packages used for the first time at the same moment (state shared through an internal
	// package, initialised by whichever comes first): 3.0 with 3.1 always, one more pair rotating with the seed
	other := [][2]int{{0, 1}, {0, 2}, {0, 3}, {1, 3}, {2, 3}}[int(env.Seed%5+5)%5]
	for _, k := range []string{"scores", "parse", "vector"} {
		combos = append(combos, combo{k, 1, 2}, combo{k, 2, 1})
	}
	combos = append(combos, combo{"scores", other[0], other[1]}, combo{"parse", other[0], other[1]})
	if env.Tier == "thorough" {
		for _, pr := range [][2]int{{0, 1}, {0, 2}, {0, 3}, {1, 3}, {2, 3}} {
			for _, k := range []string{"scores", "parse", "vector"} {
				combos = append(combos, combo{k, pr[0], pr[1]}, combo{k, pr[1], pr[0]})
			}
		}
	}
	nc := env.Scale(1, 6)
	if env.Shards > 1 {
		nc = env.Scale(1, 2)
	}
	for _, cb := range combos {
		cb := cb
		if plain {
			break
		}
		Rapid(h, "cold-start", nc, func(rt *rapid.T) Workload {
			w := Workload{Procs: []int{4, 16}[rapid.IntRange(0, 1).Draw(rt, "procs")], Rounds: env.Scale(3, 6)}
			ng := rapid.IntRange(16, 48).Draw(rt, "goroutines")
			// rotate with the case number, not with a rapid draw: the first case rapid generates is its minimal one
			prep := (coldSeq + int(env.Seed)) % 3
			invalidFirst := true // every other use of Rating in this check starts with a valid score
			for g := 0; g < ng; g++ {
				var ops []WOp
				ver := cb.ver
				if cb.ver2 >= 0 && g%2 == 1 {
					ver = cb.ver2
				}
				// the first calls of every goroutine reach the focused function; a few follow-ups.
				// How the object comes to be differs from case to case: parsed, built by Set calls on the zero
				// value (no parser call at all before the focused function), or the untouched zero value
				if cb.kind == "scores" || cb.kind == "vector" || cb.kind == "nomen" || cb.kind == "get" {
					switch prep {
					case 0:
						ops = append(ops, WOp{Kind: "parse", Ver: ver, S: gen.BStr(gen.ValidVector(rt, ver).S)})
					case 1:
						vv := gen.ValidVector(rt, ver)
						for _, abv := range vv.Written {
							ops = append(ops, WOp{Kind: "set", Ver: ver, Abv: gen.BStr(abv), Val: gen.BStr(vv.A[abv])})
						}
					}
				}
				if cb.kind == "rating" && invalidFirst {
					// the very first rating of the process is refused (out of range)
					ops = append(ops, WOp{Kind: "rating", Ver: ver, X: math.Float64bits([]float64{-0.1, 10.1, -1, 11, math.Inf(1)}[g%5])})
				}
				ops = append(ops, drawOpFocus(rt, false, cb.kind, ver))
				for i, k := 0, rapid.IntRange(0, 2).Draw(rt, "more"); i < k; i++ {
					ops = append(ops, drawOpFocus(rt, false, "", ver))
				}
				w.G = append(w.G, ops)
			}
			label := fmt.Sprintf("cold start focus=%s v%s", cb.kind, spec.Versions[cb.ver].Name)
			if cb.ver2 >= 0 {
				label += " together with v" + spec.Versions[cb.ver2].Name
			}
			h.R.Case(label, fmt.Sprintf("COLD%v", w))
			h.R.Count("fresh child processes started", int64(w.Rounds))
			if h.R.WantSample("cold-start") {
				small := w
				if len(small.G) > 2 {
					small.G = small.G[:2]
				}
				h.R.Sample("cold-start", map[string]any{"goroutines": len(w.G), "children": w.Rounds, "first_two_goroutines": small.G})
			}
			return w
		}, checkCold)
	}
	// cold starts whose very first Score() is for a given MacroVector: a rotating 12 of the 270 per quick run
	if !plain && !h.replaying() {
		fv := firstScoreVectors()
		nfv := env.Scale(12, 270)
		for k := 0; k < nfv && len(fv) > 0; k++ {
			vec := fv[(int(env.Seed%997)*nfv+k*11)%len(fv)]
			if k == 0 {
				vec = fv[0] // the MacroVector that packs to an all-zero key
			} else if k == 1 {
				vec = fv[len(fv)-1]
			}
			w := Workload{Procs: 4, Rounds: 1}
			for g := 0; g < 4; g++ {
				w.G = append(w.G, []WOp{{Kind: "parse", Ver: 3, S: gen.BStr(vec)}, {Kind: "scores", Ver: 3}})
			}
			h.R.Pending("cold-start", w)
			if err := safely(checkCold, w); err != nil {
				h.fail("cold-start", w, err)
			}
		}
		h.R.Count("fresh child processes whose first Score() is for a chosen MacroVector", int64(nfv))
	}
	if coldInconclusive > 0 && !h.replaying() {
		h.R.Count("cold-start children that could not run to a verdict (ignored)", int64(coldInconclusive))
		if coldInconclusive > 10 {
			h.R.Inconclusive("%d cold-start child processes could not run to a verdict", coldInconclusive)
		}
	}
}
