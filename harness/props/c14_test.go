package props

import (
	"fmt"
	"math"
	"runtime"
	"strings"
	"sync"
	"testing"

	"pgregory.net/rapid"

	"verifharness/adapt"
	"verifharness/gen"
	"verifharness/spec"
)

// WOp is one API call of a workload / history.
type WOp struct {
	Kind string   `json:"kind"` // parse set get vector scores rating nomen shared-scores shared-vector
	Ver  int      `json:"ver"`
	S    gen.BStr `json:"s,omitempty"`
	Abv  gen.BStr `json:"abv,omitempty"`
	Val  gen.BStr `json:"val,omitempty"`
	X    uint64   `json:"x_bits,omitempty"`
	K    int      `json:"k,omitempty"` // index of a shared object
}

// actor owns one object per version.
type actor struct {
	objs   [4]adapt.Obj
	shared []adapt.Obj
}

func newActor(shared []adapt.Obj) *actor {
	a := &actor{shared: shared}
	a.reset()
	return a
}

func (a *actor) reset() {
	for i, p := range adapt.Pkgs {
		a.objs[i] = p.Zero()
	}
}

func errText(err error) string {
	if err == nil {
		return "nil"
	}
	return fmt.Sprintf("%T:%s", err, err.Error())
}

func fbits(xs []float64) string {
	var b strings.Builder
	for _, x := range xs {
		fmt.Fprintf(&b, "%x,", math.Float64bits(x))
	}
	return b.String()
}

// exec performs one call and returns a canonical description of everything
// observable about its result.
func (a *actor) exec(op WOp) (res string) {
	defer func() {
		if r := recover(); r != nil {
			res = fmt.Sprintf("panic:%v", r)
		}
	}()
	if op.Ver < 0 || op.Ver > 3 {
		return "bad-op"
	}
	p := adapt.Pkgs[op.Ver]
	o := a.objs[op.Ver]
	switch op.Kind {
	case "parse":
		q, err := p.Parse(string(op.S))
		if q == nil {
			return "parse:nil," + errText(err)
		}
		a.objs[op.Ver] = q // the parsed object becomes the actor's object
		return "parse:" + q.State() + "," + errText(err)
	case "set":
		err := o.Set(string(op.Abv), string(op.Val))
		return "set:" + errText(err) + "," + o.State()
	case "get":
		g, err := o.Get(string(op.Abv))
		return "get:" + g + "," + errText(err)
	case "vector":
		return "vector:" + o.Vector()
	case "scores":
		return "scores:" + fbits(o.Scores()) + fbits(o.SubScores())
	case "nomen":
		return "nomen:" + o.Nomenclature()
	case "rating":
		if p.Rating == nil {
			return "rating:n/a"
		}
		r, err := p.Rating(math.Float64frombits(op.X))
		return "rating:" + r + "," + errText(err)
	case "shared-scores":
		if len(a.shared) == 0 {
			return "none"
		}
		s := a.shared[((op.K%len(a.shared))+len(a.shared))%len(a.shared)]
		return "sscores:" + fbits(s.Scores())
	case "shared-vector":
		if len(a.shared) == 0 {
			return "none"
		}
		s := a.shared[((op.K%len(a.shared))+len(a.shared))%len(a.shared)]
		g, _ := s.Get("AV")
		return "svector:" + s.Vector() + g
	}
	return "bad-op"
}

// drawOp draws an API call; dirty=true emphasises what dirties shared state.
func drawOp(rt *rapid.T, dirty bool) WOp {
	vi := gen.Version(rt)
	if dirty && rapid.IntRange(0, 1).Draw(rt, "v2bias") == 0 {
		vi = 0
	}
	v := spec.Versions[vi]
	kinds := []string{"parse", "parse", "parse", "set", "get", "vector", "vector", "scores", "rating", "nomen", "shared-scores", "shared-vector"}
	op := WOp{Kind: kinds[rapid.IntRange(0, len(kinds)-1).Draw(rt, "kind")], Ver: vi}
	switch op.Kind {
	case "parse":
		switch rapid.IntRange(0, 5).Draw(rt, "parsesrc") {
		case 0, 1, 2:
			op.S = gen.BStr(gen.ValidVector(rt, vi).S)
		case 3:
			s, _ := gen.Mutate(rt, gen.ValidVector(rt, vi))
			op.S = gen.BStr(s)
		case 4: // over-long: more than 14 parts
			b := gen.ValidVector(rt, 0)
			op.S = gen.BStr(b.S + strings.Repeat("/"+gen.ValidVector(rt, 0).S, rapid.IntRange(1, 3).Draw(rt, "rep")))
		case 5:
			op.S = gen.AnyString(rt).S
		}
	case "set":
		s := gen.SetOp(rt, vi)
		op.Abv, op.Val = s.Abv, s.Val
	case "get":
		op.Abv = gen.BStr(v.Metrics[rapid.IntRange(0, len(v.Metrics)-1).Draw(rt, "m")].Abv)
		if rapid.IntRange(0, 9).Draw(rt, "unk") == 0 {
			op.Abv = "ZZ"
		}
	case "rating":
		op.X = math.Float64bits(float64(rapid.IntRange(-5, 105).Draw(rt, "k")) / 10)
	case "shared-scores", "shared-vector":
		op.K = rapid.IntRange(0, 7).Draw(rt, "k")
	}
	return op
}

// ---- (a) history independence -------------------------------------------

// HistCase: the probe is evaluated on a fresh object before and after a history.
type HistCase struct {
	Setup   []WOp `json:"setup"`   // brings the probe's receiver into its state (re-run on a fresh actor each time)
	Probe   WOp   `json:"probe"`
	History []WOp `json:"history"` // runs on another actor in between
}

func sharedObjects() []adapt.Obj {
	var out []adapt.Obj
	for _, s := range []string{
		"AV:N/AC:L/Au:N/C:P/I:P/A:C/E:U/RL:OF/RC:C/CDP:MH/TD:H/CR:M/IR:M/AR:M",
		"CVSS:3.0/AV:N/AC:H/PR:L/UI:N/S:C/C:H/I:L/A:L/E:F/RL:O/RC:C/CR:H/IR:L/AR:M/MAV:A/MC:H",
		"CVSS:3.1/AV:L/AC:L/PR:H/UI:R/S:U/C:L/I:H/A:N/E:P/RL:W/RC:R/CR:L/MS:C/MI:L",
		"CVSS:4.0/AV:N/AC:L/AT:P/PR:L/UI:P/VC:H/VI:L/VA:N/SC:L/SI:H/SA:N/E:P/CR:M/IR:L/MAV:A/MSI:S/S:P/U:Amber",
	} {
		for _, p := range adapt.Pkgs {
			if o, err := p.Parse(s); err == nil && o != nil {
				out = append(out, o)
			}
		}
	}
	return out
}

func checkHistoryIndependence(c HistCase) error {
	shared := sharedObjects()
	run := func() string {
		a := newActor(shared)
		for _, op := range c.Setup {
			a.exec(op)
		}
		return a.exec(c.Probe) + "|" + a.objs[c.Probe.Ver%4].State()
	}
	r1 := run()
	b := newActor(shared)
	for _, op := range c.History {
		b.exec(op)
	}
	r2 := run()
	if r1 != r2 {
		return fmt.Errorf("%s(v%s) gives %q before and %q after an unrelated history of %d calls", c.Probe.Kind, spec.Versions[c.Probe.Ver%4].Name, r1, r2, len(c.History))
	}
	// anchor parse probes to the reference parser, so that a result that is
	// consistently wrong after some earlier history is caught too
	if c.Probe.Kind == "parse" {
		p := adapt.Pkgs[c.Probe.Ver]
		s := string(c.Probe.S)
		want, member := spec.Parse(p.V, s)
		o, err, pan := p.SafeParse(s)
		if pan != nil {
			return fmt.Errorf("ParseVector(%q) panicked after a history: %v", s, pan)
		}
		if member != (err == nil) {
			return fmt.Errorf("after a history v%s ParseVector(%q) err=%v but well-formed=%v", p.V.Name, s, err, member)
		}
		if member {
			if e := gets(p, o, want, "after a history ParseVector("+s+")"); e != nil {
				return e
			}
		}
	}
	return nil
}

// ---- (b) immutability of Vector() strings, (c) aliasing ---------------------

type AliasCase struct {
	Objs    []gen.Valid `json:"objects"`
	History []WOp       `json:"history"`
	Set     gen.Op      `json:"set"`
}

func checkAliasing(c AliasCase) error {
	type kept struct{ s, clone string }
	var ks []kept
	var objs []adapt.Obj
	for _, v := range c.Objs {
		p := adapt.Pkgs[v.Ver]
		o, err, pan := p.SafeParse(v.S)
		if pan != nil || err != nil || o == nil {
			continue
		}
		objs = append(objs, o)
		s := o.Vector()
		ks = append(ks, kept{s, strings.Clone(s)})
		// copy independence
		cp := o.Clone()
		before := cp.State()
		o.Set(string(c.Set.Abv), string(c.Set.Val))
		for _, m := range p.V.Metrics {
			o.Set(m.Abv, m.Vals[len(m.Vals)-1])
		}
		if cp.State() != before {
			return fmt.Errorf("v%s: a copy of an object changed when the original was modified (%s -> %s)", p.V.Name, before, cp.State())
		}
		// two parses of the same string are independent objects
		p1, _, _ := p.SafeParse(v.S)
		p2, _, _ := p.SafeParse(v.S)
		if p1 == nil || p2 == nil {
			return fmt.Errorf("v%s: ParseVector(%q) succeeded once and failed later", p.V.Name, v.S)
		}
		if p1.Same(p2) {
			return fmt.Errorf("v%s: two ParseVector(%q) calls returned the same pointer", p.V.Name, v.S)
		}
		st := p2.State()
		for _, m := range p.V.Metrics {
			p1.Set(m.Abv, m.Vals[len(m.Vals)-1])
		}
		p3, _, _ := p.SafeParse(v.S)
		if p2.State() != st || p3 == nil || p3.State() != st {
			return fmt.Errorf("v%s: mutating one parse result of %q affected another (%s / %s, want %s)", p.V.Name, v.S, p2.State(), p3.State(), st)
		}
		ks = append(ks, kept{cp.Vector(), ""})
		ks[len(ks)-1].clone = strings.Clone(ks[len(ks)-1].s)
	}
	a := newActor(objs)
	for _, op := range c.History {
		a.exec(op)
	}
	for _, o := range objs {
		_ = o.Vector()
	}
	runtime.GC()
	for _, o := range objs {
		_ = o.Vector()
	}
	runtime.GC()
	for _, k := range ks {
		if k.s != k.clone {
			return fmt.Errorf("a string returned by Vector() changed afterwards: was %q, now %q", k.clone, k.s)
		}
	}
	return nil
}

// ---- (d) interleaving -------------------------------------------------------

type Workload struct {
	Procs  int     `json:"gomaxprocs"`
	Rounds int     `json:"rounds"`
	G      [][]WOp `json:"goroutines"`
}

func (w Workload) expected(shared []adapt.Obj) [][]string {
	out := make([][]string, len(w.G))
	for g, ops := range w.G {
		a := newActor(shared)
		for _, op := range ops {
			out[g] = append(out[g], a.exec(op))
		}
	}
	return out
}

// runWorkload executes the workload concurrently and compares every result of
// every round with the sequential execution.
func runWorkload(w Workload) error {
	if len(w.G) == 0 {
		return nil
	}
	shared := sharedObjects()
	want := w.expected(shared)
	procs := w.Procs
	if procs < 1 {
		procs = 1
	}
	old := runtime.GOMAXPROCS(procs)
	defer runtime.GOMAXPROCS(old)
	rounds := w.Rounds
	if rounds < 1 {
		rounds = 1
	}
	var wg sync.WaitGroup
	start := make(chan struct{})
	errs := make([]error, len(w.G))
	for g := range w.G {
		wg.Add(1)
		go func(g int) {
			defer wg.Done()
			a := newActor(shared)
			<-start
			for r := 0; r < rounds; r++ {
				a.reset()
				for i, op := range w.G[g] {
					got := a.exec(op)
					if got != want[g][i] && errs[g] == nil {
						errs[g] = fmt.Errorf("goroutine %d round %d call %d %s(v%s %q): concurrent result %q differs from the sequential result %q (GOMAXPROCS=%d, %d goroutines)", g, r, i, op.Kind, spec.Versions[op.Ver%4].Name, string(op.S), got, want[g][i], procs, len(w.G))
					}
				}
			}
		}(g)
	}
	close(start)
	wg.Wait()
	for _, e := range errs {
		if e != nil {
			return e
		}
	}
	return nil
}

func drawWorkload(rt *rapid.T, procs int) Workload {
	ng := rapid.IntRange(2, 24).Draw(rt, "goroutines")
	w := Workload{Procs: procs, Rounds: rapid.IntRange(1, 6).Draw(rt, "rounds")}
	for g := 0; g < ng; g++ {
		n := rapid.IntRange(1, 40).Draw(rt, "nops")
		var ops []WOp
		for i := 0; i < n; i++ {
			ops = append(ops, drawOp(rt, true))
		}
		w.G = append(w.G, ops)
	}
	return w
}

func (w Workload) contention() (v2parsers, vectorers, ops int) {
	for _, g := range w.G {
		p, v := false, false
		for _, op := range g {
			ops++
			if op.Kind == "parse" && op.Ver == 0 {
				p = true
			}
			if op.Kind == "vector" || op.Kind == "shared-vector" {
				v = true
			}
		}
		if p {
			v2parsers++
		}
		if v {
			vectorers++
		}
	}
	return
}

func TestC14(t *testing.T) {
	h := start(t, "C14", "four generators: (a) a probe call (any exported function, generated arguments and receiver state) evaluated before and after an unrelated generated history that dirties shared state (14-part and over-long v2 vectors, failing parses, many Vector() calls) - results must be identical and parse results agree with the reference parser; (b,c) Vector() strings kept with a clone across further calls and two GC cycles, copies and repeated parses mutated independently; (d) workloads of 2-24 goroutines x up to 40 calls x up to 6 rounds on own objects and shared read-only objects, compared call by call with the sequential execution at GOMAXPROCS 1, 2, 4 and 16, the whole binary built with -race (a race report fails the check); non-trivial = a workload in which at least two goroutines run the v2.0 parser (the pool) or Vector() concurrently, or a probe/history pair whose history contains a v2.0 parse; distinct by case")
	h.R.Assume("the Go scheduler is not controlled: interleavings are sampled (preemption, four GOMAXPROCS values); the race detector generalises from the observed runs to unsynchronised access pairs")
	n := env.Scale(6000, 20000)
	if env.Shards > 1 {
		n = env.Scale(6000, 40000)
	}
	Rapid(h, "history-independence", n, func(rt *rapid.T) HistCase {
		var c HistCase
		for i, k := 0, rapid.IntRange(0, 6).Draw(rt, "nsetup"); i < k; i++ {
			c.Setup = append(c.Setup, drawOp(rt, false))
		}
		c.Probe = drawOp(rt, false)
		for i, k := 0, rapid.IntRange(1, 30).Draw(rt, "nhist"); i < k; i++ {
			c.History = append(c.History, drawOp(rt, true))
		}
		v2 := 0
		for _, op := range c.History {
			if op.Kind == "parse" && op.Ver == 0 {
				v2++
			}
		}
		key := ""
		if v2 > 0 {
			key = fmt.Sprintf("H%v", c)
		}
		h.R.Case(fmt.Sprintf("history-independence probe=%s v2-parses-in-history=%s", c.Probe.Kind, bucket(v2)), key)
		if h.R.WantSample("history-independence") {
			h.R.Sample("history-independence", c)
		}
		return c
	}, checkHistoryIndependence)
	Rapid(h, "aliasing", n/3, func(rt *rapid.T) AliasCase {
		var c AliasCase
		for i, k := 0, rapid.IntRange(1, 6).Draw(rt, "nobj"); i < k; i++ {
			c.Objs = append(c.Objs, gen.ValidVector(rt, gen.Version(rt)))
		}
		for i, k := 0, rapid.IntRange(0, 20).Draw(rt, "nhist"); i < k; i++ {
			c.History = append(c.History, drawOp(rt, true))
		}
		c.Set = gen.SetOp(rt, c.Objs[0].Ver)
		h.R.Case("aliasing / immutable Vector() strings", fmt.Sprintf("A%v", c))
		if h.R.WantSample("aliasing") {
			h.R.Sample("aliasing", c)
		}
		return c
	}, checkAliasing)
	// (d) each workload runs in a subtest so that a race report is attributed to it
	nw := env.Scale(150, 1500)
	if env.Shards > 1 {
		nw = env.Scale(150, 800)
	}
	seq := 0
	for _, procs := range []int{1, 2, 4, 16} {
		procs := procs
		if h.replaying() {
			if procs != 1 {
				continue
			}
		}
		check := func(w Workload) error {
			reps := 1
			if h.replaying() {
				reps = 50
			}
			var err error
			seq++
			ok := h.t.Run(fmt.Sprintf("w%d", seq), func(st *testing.T) {
				for i := 0; i < reps && err == nil; i++ {
					err = runWorkload(w)
				}
			})
			if err != nil {
				return err
			}
			if !ok {
				return fmt.Errorf("the race detector reported a data race while running this workload (GOMAXPROCS=%d, %d goroutines); see the log for the access pair", w.Procs, len(w.G))
			}
			return nil
		}
		if doReplay(h, "workload", check) {
			continue
		}
		Rapid(h, "workload", nw, func(rt *rapid.T) Workload {
			w := drawWorkload(rt, procs)
			p, v, ops := w.contention()
			key := ""
			if p >= 2 || v >= 2 {
				key = fmt.Sprintf("W%v", w)
			}
			h.R.Case(fmt.Sprintf("workload GOMAXPROCS=%d goroutines=%s v2-parsing-goroutines=%s", procs, bucket(len(w.G)), bucket(p)), key)
			h.R.Count("workload API calls executed concurrently (x rounds)", int64(ops*w.Rounds))
			if h.R.WantSample(fmt.Sprintf("workload-%d", procs)) {
				small := w
				if len(small.G) > 2 {
					small.G = small.G[:2]
				}
				h.R.Sample(fmt.Sprintf("workload-%d", procs), map[string]any{"gomaxprocs": procs, "goroutines": len(w.G), "rounds": w.Rounds, "first_two_goroutines": small.G})
			}
			return w
		}, check)
	}
}
