package props

import (
	"fmt"
	"sync"
	"sync/atomic"

	"verifharness/adapt"
	"verifharness/spec"
)

// ConcBatch: the single-case check of a score property evaluated on N different classes by many goroutines at
// the same time, several rounds. It is what stands behind a walk that flagged a class which then passes when it is
// evaluated alone: either the walk's own (fast) evaluator is wrong - a harness error - or the library's answer
// depends on what other goroutines are scoring at that moment (a result cache with more than one word per line
// that readers can see half-updated is exact sequentially and silent under the race detector). The batch uses
// only the single-case checks, so a failure in it cannot come from the fast evaluators; and it is a replayable case.
type ConcBatch struct {
	Prop   string `json:"walk_of"` // C03 C04 C05 C11
	Ver    int    `json:"ver"`
	Seed   int64  `json:"seed"`
	N      int    `json:"classes"`
	Rounds int    `json:"rounds"`
}

// prepare builds the object of class idx once and returns a closure that only calls the scoring methods and
// compares with the oracle values computed here (so that the goroutines spend their time inside the library).
func (c ConcBatch) prepare(idx int) func() error {
	var sc ScoreCase
	switch c.Prop {
	case "C05":
		sc = ScoreCase{Ver: 0, A: v2Decode(idx % v2Total)}
	case "C03":
		sc = v3ClassDecode(c.Ver, idx%v3Classes)
		if idx%2 == 1 {
			sc = v3ViaModified(sc)
		}
	case "C04":
		if idx%2 == 1 {
			sc = v4ClassCaseViaModified(idx % spec.V4Classes())
		} else {
			sc = v4ClassCase(idx % spec.V4Classes())
		}
	case "C11":
		switch c.Ver {
		case 0:
			sc = ScoreCase{Ver: 0, A: v2Decode(idx % v2Total)}
		case 1, 2:
			sc = v3ClassDecode(c.Ver, idx%v3Classes)
		default:
			sc = v4ClassCase(idx % spec.V4Classes())
		}
	default:
		return nil
	}
	p := adapt.Pkgs[sc.Ver]
	o, err := p.Build(sc.A)
	if err != nil {
		return nil
	}
	nfn := 3
	if sc.Ver == 3 {
		nfn = 1
	}
	want := make([][]int, nfn)
	for i := range want {
		want[i], _ = oracleFn(sc.Ver, sc.A, i)
	}
	vec := sc.vec()
	return func() error {
		for round := 0; round < 2; round++ {
			got := o.Scores()
			for i := 0; i < nfn; i++ {
				k, ok := tenths(got[i])
				if !ok || !spec.InSet(want[i], k) {
					return fmt.Errorf("v%s score %d of %s = %v, the specification gives %v tenths", p.V.Name, i, vec, got[i], want[i])
				}
			}
		}
		return nil
	}
}

func runConcBatch(c ConcBatch) error {
	if c.N < 1 || c.N > 1<<24 || c.Rounds < 1 || c.Rounds > 4096 {
		return nil
	}
	// a pool of N classes spread over the space; every goroutine walks it in its own order, so each class is
	// scored many times by several goroutines
	x := uint64(c.Seed)*6364136223846793005 + 1442695040888963407
	calls := make([]func() error, 0, c.N)
	for i := 0; i < c.N; i++ {
		x = x*6364136223846793005 + 1442695040888963407
		if f := c.prepare(int(x >> 33)); f != nil {
			calls = append(calls, f)
		}
	}
	if len(calls) == 0 {
		return nil
	}
	// sequentially first: a class that is wrong on its own is not this batch's business (the walk's own check reports it)
	for _, f := range calls {
		if err := f(); err != nil {
			return nil
		}
	}
	const G = 16
	var wg sync.WaitGroup
	var first atomic.Value
	var stop int32
	for g := 0; g < G; g++ {
		wg.Add(1)
		go func(g int) {
			defer wg.Done()
			defer func() {
				if r := recover(); r != nil {
					first.CompareAndSwap(nil, fmt.Errorf("while %d goroutines score %d different classes at the same time: panic: %v", G, len(calls), r))
				}
			}()
			step := nextPrime(5 + 2*g)
			for r := 0; r < c.Rounds; r++ {
				for k := 0; k < len(calls) && atomic.LoadInt32(&stop) == 0; k++ {
					if err := calls[(k*step+g*977)%len(calls)](); err != nil {
						first.CompareAndSwap(nil, fmt.Errorf("while %d goroutines score %d different classes at the same time (each class right when scored alone): %v", G, len(calls), err))
						atomic.StoreInt32(&stop, 1)
						return
					}
				}
			}
		}(g)
	}
	wg.Wait()
	if e := first.Load(); e != nil {
		return e.(error)
	}
	return nil
}

// walkDisagrees is called when a walk flagged class idx and the single-case check of that class passes. It
// runs a concurrent batch; a failure there is reported as a violation (with the batch as replay), otherwise the
// run ends as a harness error (inconclusive), as before.
func walkDisagrees(h *H, prop string, ver int, idx int, what string) {
	c := ConcBatch{Prop: prop, Ver: ver, Seed: int64(idx), N: 40000, Rounds: 60}
	if err := runConcBatch(c); err != nil {
		h.fail("concurrent-classes", c, fmt.Errorf("the walk flagged %s, which is right when evaluated alone; %v", what, err))
	}
	h.t.Fatalf("HARNESS-ERROR %s: the walk flagged %s but the single-case check passes, and a concurrent batch of single-case checks passes too", prop, what)
}
