package props

import (
	"fmt"
	"runtime/debug"
	"sync"
	"syscall"
	"unsafe"

	gocvss20 "github.com/pandatix/go-cvss/20"
	gocvss30 "github.com/pandatix/go-cvss/30"
	gocvss31 "github.com/pandatix/go-cvss/31"
	gocvss40 "github.com/pandatix/go-cvss/40"

	"verifharness/adapt"
	"verifharness/gen"
	"verifharness/spec"
)

// Guarded strings: the bytes of an input are placed so that the string ENDS exactly at the end of a readable
// page whose successor is inaccessible (or STARTS at the beginning of a page whose predecessor is
// inaccessible), the way the last record of a memory-mapped file does. A parser that looks one byte
// beyond (or before) its input - a loop that loads before it tests the length - reads the same garbage as
// always from an ordinary heap string and nobody notices; here it faults, and with
// debug.SetPanicOnFault the fault is a panic of the calling goroutine: "no byte string makes it panic".
// The mapping is never written again, never unmapped and never handed to anybody else, so the string
// is as immutable as any other (a library may keep a string it was given).

type guardArena struct {
	mu   sync.Mutex
	mem  []byte
	next int // next unused (data page, guard page) pair
	n    int
}

const pageSize = 4096

var arena guardArena

func (a *guardArena) init(pairs int) error {
	a.mu.Lock()
	defer a.mu.Unlock()
	if a.mem != nil {
		return nil
	}
	// layout: guard, data, guard, data, ..., guard
	mem, err := syscall.Mmap(-1, 0, (2*pairs+1)*pageSize, syscall.PROT_READ|syscall.PROT_WRITE, syscall.MAP_ANON|syscall.MAP_PRIVATE)
	if err != nil {
		return err
	}
	for i := 0; i <= pairs; i++ {
		if err := syscall.Mprotect(mem[2*i*pageSize:(2*i+1)*pageSize], syscall.PROT_NONE); err != nil {
			return err
		}
	}
	a.mem, a.n = mem, pairs
	return nil
}

// place copies s into a fresh data page, flush with its end (atEnd) or its start, and returns the string
// over those bytes. ok=false when the arena is exhausted or s does not fit.
func (a *guardArena) place(s string, atEnd bool) (string, bool) {
	a.mu.Lock()
	defer a.mu.Unlock()
	if a.mem == nil || a.next >= a.n || len(s) == 0 || len(s) > pageSize {
		return "", false
	}
	page := a.mem[(2*a.next+1)*pageSize : (2*a.next+2)*pageSize]
	a.next++
	var b []byte
	if atEnd {
		b = page[pageSize-len(s):]
	} else {
		b = page[:len(s)]
	}
	copy(b, s)
	return unsafe.String(&b[0], len(b)), true
}

// GuardCase: one string, parsed from a guarded placement by every parser.
type GuardCase struct {
	S     gen.BStr `json:"s"`
	AtEnd bool     `json:"flush_with_page_end"`
}

func checkGuarded(c GuardCase) error {
	if err := arena.init(guardPairs); err != nil {
		return nil // no such mapping on this machine: nothing to check
	}
	s, ok := arena.place(string(c.S), c.AtEnd)
	if !ok {
		return nil
	}
	var res error
	done := make(chan struct{})
	go func() { // SetPanicOnFault is per goroutine
		defer close(done)
		debug.SetPanicOnFault(true)
		for _, p := range adapt.Pkgs {
			o, err, pan := p.SafeParse(s)
			if pan != nil {
				where := "start"
				if c.AtEnd {
					where = "end"
				}
				res = fmt.Errorf("v%s ParseVector(%q) faults when the string lies at the %s of accessible memory (it reads outside its input): %v", p.V.Name, string(c.S), where, pan)
				return
			}
			if want := spec.Member(p.V, string(c.S)); want != (err == nil) || (o == nil) == (err == nil) {
				res = fmt.Errorf("v%s ParseVector(%q) from a page-aligned copy: err=%v, well-formed=%v", p.V.Name, string(c.S), err, want)
				return
			}
			if o != nil {
				// the other functions of an accepted vector, from the same placement
				if e := adapt.Safe(func() { o.Vector(); o.Scores(); o.Get(p.V.Metrics[0].Abv) }); e != nil {
					res = fmt.Errorf("v%s: using the object parsed from %q: %v", p.V.Name, string(c.S), e)
					return
				}
			}
		}
	}()
	<-done
	return res
}

const guardPairs = 6000

// guardCases: every prefix and every suffix-trimmed form of the representative vectors (the shapes that end
// inside a token), flush with the page end; the full vectors and their prefixes up to the first '/' flush
// with the page start.
func guardCases() []GuardCase {
	var out []GuardCase
	seen := map[string]bool{}
	add := func(s string, atEnd bool) {
		k := fmt.Sprint(atEnd) + s
		if s != "" && !seen[k] && len(out) < guardPairs-64 {
			seen[k] = true
			out = append(out, GuardCase{S: gen.BStr(s), AtEnd: atEnd})
		}
	}
	for _, r := range gen.Representatives() {
		add(r.S, true)
		add(r.S, false)
	}
	for _, r := range gen.Representatives() {
		for i := 1; i < len(r.S); i++ {
			add(r.S[:i], true)
		}
		for i := 1; i < len(r.S) && i < 24; i++ {
			add(r.S[i:], false)
		}
		add(r.S+"/", true)
		add(r.S+":", true)
	}
	return out
}

// ---- huge inputs ---------------------------------------------------------------------------------

// hugeString maps n zero bytes (not reserved, not touched) and writes prefix at its start: a string of more than
// 4 GiB costs nothing unless somebody walks through it. Offsets kept in 32 bits wrap on such an input.
func hugeString(prefix string, n int) (string, bool) {
	if unsafe.Sizeof(uintptr(0)) < 8 || n < len(prefix) {
		return "", false
	}
	mem, err := syscall.Mmap(-1, 0, n, syscall.PROT_READ|syscall.PROT_WRITE, syscall.MAP_ANON|syscall.MAP_PRIVATE|syscall.MAP_NORESERVE)
	if err != nil {
		return "", false
	}
	copy(mem, prefix)
	return unsafe.String(&mem[0], n), true
}

// HugeCase: a valid vector of a v3.x / v4.0 version followed by "/ZZ:N/" and zero bytes up to a total
// length at which a 32-bit (or 31-bit) offset wraps. It is not well formed; every parser must refuse it.
type HugeCase struct {
	Ver    int    `json:"ver"`
	Vector string `json:"valid_prefix"`
	Len    int64  `json:"total_length"`
}

func checkHuge(c HugeCase) error {
	if c.Ver < 1 || c.Ver > 3 || c.Len > 1<<34 {
		return nil
	}
	s, ok := hugeString(c.Vector+"/ZZ:N/", int(c.Len))
	if !ok {
		return nil // a 32-bit process, or the mapping is refused here: nothing to check
	}
	p := adapt.Pkgs[c.Ver]
	o, err, pan := p.SafeParse(s)
	if pan != nil {
		return fmt.Errorf("v%s ParseVector(%q + zero bytes up to %d bytes) panicked: %v", p.V.Name, c.Vector+"/ZZ:N/", c.Len, pan)
	}
	if err == nil || o != nil {
		return fmt.Errorf("v%s ParseVector accepts a string of %d bytes that starts with %q and continues with zero bytes (object %v, err %v)", p.V.Name, c.Len, c.Vector+"/ZZ:N/", o != nil, err)
	}
	return nil
}

func hugeCases() []HugeCase {
	var out []HugeCase
	for _, r := range gen.Representatives() {
		if r.Ver == 0 {
			continue // the v2.0 parser splits the whole input first: seconds per case, and nothing to wrap
		}
		n := int64(len(r.S))
		for _, l := range []int64{1<<32 + n, 1 << 32, 1<<32 + n + 6, 1<<31 + n, 1<<32 + n + 1} {
			out = append(out, HugeCase{Ver: r.Ver, Vector: r.S, Len: l})
		}
	}
	return out
}

// ---- guarded objects -----------------------------------------------------------------------------

// GuardObj: an object (given by a valid vector) copied so that its last byte is the last byte of a readable page
// whose successor is inaccessible (or its first byte the first of a page whose predecessor is), the way the last
// element of a memory-mapped array of records lies. Every method is then called on that copy. A method that loads
// a word that extends beyond the object "and shifts the rest out" faults here.
type GuardObj struct {
	Ver   int      `json:"ver"`
	Vec   gen.BStr `json:"vector"`
	AtEnd bool     `json:"flush_with_page_end"`
}

func (a *guardArena) page() ([]byte, bool) {
	a.mu.Lock()
	defer a.mu.Unlock()
	if a.mem == nil || a.next >= a.n {
		return nil, false
	}
	pg := a.mem[(2*a.next+1)*pageSize : (2*a.next+2)*pageSize]
	a.next++
	return pg, true
}

func checkGuardObj(c GuardObj) error {
	if c.Ver < 0 || c.Ver > 3 {
		return nil
	}
	if err := arena.init(guardPairs); err != nil {
		return nil
	}
	p := adapt.Pkgs[c.Ver]
	src, err := p.Parse(string(c.Vec))
	if err != nil || src == nil {
		return nil
	}
	pg, ok := arena.page()
	if !ok {
		return nil
	}
	at := func(size uintptr) unsafe.Pointer {
		if c.AtEnd {
			return unsafe.Pointer(&pg[pageSize-int(size)])
		}
		return unsafe.Pointer(&pg[0])
	}
	var o adapt.Obj
	switch c.Ver {
	case 0:
		q := (*gocvss20.CVSS20)(at(unsafe.Sizeof(gocvss20.CVSS20{})))
		*q = *src.(adapt.O20).P
		o = adapt.O20{P: q}
	case 1:
		q := (*gocvss30.CVSS30)(at(unsafe.Sizeof(gocvss30.CVSS30{})))
		*q = *src.(adapt.O30).P
		o = adapt.O30{P: q}
	case 2:
		q := (*gocvss31.CVSS31)(at(unsafe.Sizeof(gocvss31.CVSS31{})))
		*q = *src.(adapt.O31).P
		o = adapt.O31{P: q}
	default:
		q := (*gocvss40.CVSS40)(at(unsafe.Sizeof(gocvss40.CVSS40{})))
		*q = *src.(adapt.O40).P
		o = adapt.O40{P: q}
	}
	observe := func(x adapt.Obj) string {
		s := x.Vector() + "|" + fbits(x.Scores()) + fbits(x.SubScores()) + "|" + x.Nomenclature()
		for _, m := range p.V.Metrics {
			g, _ := x.Get(m.Abv)
			s += "|" + g
		}
		m := p.V.Metrics[len(p.V.Metrics)-1]
		x.Set(m.Abv, m.Vals[len(m.Vals)-1])
		x.Set(p.V.Metrics[0].Abv, p.V.Metrics[0].Vals[0])
		return s + "|" + x.State()
	}
	want := observe(src.Clone())
	var res error
	done := make(chan struct{})
	go func() {
		defer close(done)
		debug.SetPanicOnFault(true)
		var got string
		if e := adapt.Safe(func() { got = observe(o) }); e != nil {
			where := "start"
			if c.AtEnd {
				where = "end"
			}
			res = fmt.Errorf("v%s: a method faults on an object (%s) that lies at the %s of accessible memory - it accesses bytes outside the object: %v", p.V.Name, string(c.Vec), where, e)
			return
		}
		if got != want {
			res = fmt.Errorf("v%s: the methods of an object (%s) placed at a page edge return %q, elsewhere %q", p.V.Name, string(c.Vec), got, want)
		}
	}()
	<-done
	return res
}

func guardObjCases() []GuardObj {
	var out []GuardObj
	for _, r := range gen.Representatives() {
		out = append(out, GuardObj{Ver: r.Ver, Vec: gen.BStr(r.S), AtEnd: true}, GuardObj{Ver: r.Ver, Vec: gen.BStr(r.S), AtEnd: false})
	}
	return out
}
