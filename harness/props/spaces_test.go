package props

import (
	"verifharness/spec"
)

// prefixSpace: every combination of values of the first k metrics of a version (table order), all
// later metrics undefined. k = number of base metrics + temporal/threat metrics gives the
// base x temporal space (v2.0 72,900, v3.x 259,200, v4.0 419,904 objects); k = 14 (v3.x) or
// 15 (v4.0) adds the security requirements (16,588,800 and 26,873,856 objects).
type prefixSpace struct {
	vi    int
	k     int
	radix []int
	n     int
}

func newPrefixSpace(vi, k int) *prefixSpace {
	v := spec.Versions[vi]
	sp := &prefixSpace{vi: vi, k: k, n: 1}
	for i := 0; i < k; i++ {
		sp.radix = append(sp.radix, len(v.Metrics[i].Vals))
		sp.n *= len(v.Metrics[i].Vals)
	}
	return sp
}

func (sp *prefixSpace) size() int { return sp.n }

// tailProduct: the number of combinations of the metrics from position from on (so that
// size()/tailProduct(nbase) objects have no optional metric defined... times 1).
func (sp *prefixSpace) tailProduct(from int) int {
	n := 1
	for i := from; i < sp.k; i++ {
		n *= sp.radix[i]
	}
	return n
}

// digits: mixed radix, first metric slowest.
func (sp *prefixSpace) digits(idx int, d []int) {
	for i := sp.k - 1; i >= 0; i-- {
		d[i] = idx % sp.radix[i]
		idx /= sp.radix[i]
	}
}

func (sp *prefixSpace) assignment(idx int) spec.Assignment {
	v := spec.Versions[sp.vi]
	a := spec.Assignment{}
	d := make([]int, sp.k)
	sp.digits(idx, d)
	for i, m := range v.Metrics {
		if i < sp.k {
			a[m.Abv] = m.Vals[d[i]]
		} else {
			a[m.Abv] = v.ND
		}
	}
	return a
}

// quickPrefix / fullPrefix: the k used by the quick tier (base x temporal/threat) and the
// thorough tier (plus the security requirements); v2.0 is walked completely elsewhere.
func quickPrefix(vi int) int { return []int{9, 11, 11, 12}[vi] }
func fullPrefix(vi int) int  { return []int{9, 14, 14, 15}[vi] }

// cornerSpace: raw-space corners that the effective-class walks do not visit - every subset of
// the Modified metrics held explicitly at one extreme (all at their most severe or all at their
// least severe value) and the others absent, on two base backgrounds (every base metric at its first / at its
// last value), crossed with every spelling (each value and X) of the security requirements and
// of the v4.0 threat metric, and with {X, first, last} for each v3.x temporal metric.
type cornerSpace struct {
	vi    int
	mods  []string
	bases []string // the base metric each of them overrides
	other []string // the remaining scoring metrics that are crossed
	ovals [][]string
	per   int // product of len(ovals)
}

func newCornerSpace(vi int) *cornerSpace {
	v := spec.Versions[vi]
	cs := &cornerSpace{vi: vi, per: 1}
	mod := spec.ModifiedOf(v)
	for _, b := range spec.OverridableOrder(v) {
		cs.mods = append(cs.mods, mod[b])
		cs.bases = append(cs.bases, b)
	}
	isMod := map[string]bool{}
	for _, m := range cs.mods {
		isMod[m] = true
	}
	for _, m := range v.Metrics {
		if m.Mandatory || m.Group == "supp" || isMod[m.Abv] {
			continue
		}
		vals := m.Vals
		if m.Group == "temporal" {
			vals = []string{m.Vals[0], m.Vals[1], m.Vals[len(m.Vals)-1]}
		}
		cs.other = append(cs.other, m.Abv)
		cs.ovals = append(cs.ovals, vals)
		cs.per *= len(vals)
	}
	return cs
}

func (cs *cornerSpace) size() int { return 4 * (1 << len(cs.mods)) * cs.per }

func (cs *cornerSpace) decode(idx int) ScoreCase {
	v := spec.Versions[cs.vi]
	a := spec.Assignment{}
	o := idx % cs.per
	idx /= cs.per
	subset := idx % (1 << len(cs.mods))
	idx /= 1 << len(cs.mods)
	extreme, bg := idx%2, idx/2
	for _, m := range v.Metrics {
		switch {
		case m.Mandatory && bg == 0:
			a[m.Abv] = m.Vals[0]
		case m.Mandatory:
			a[m.Abv] = m.Vals[len(m.Vals)-1]
		default:
			a[m.Abv] = v.ND
		}
	}
	sev := sevV3
	if cs.vi == 3 {
		sev = sevV4
	}
	for i, abv := range cs.mods {
		if subset&(1<<i) != 0 {
			chain := sev[cs.bases[i]] // ascending severity
			if extreme == 0 {
				a[abv] = chain[len(chain)-1]
			} else {
				a[abv] = chain[0]
			}
		}
	}
	for i := len(cs.other) - 1; i >= 0; i-- {
		a[cs.other[i]] = cs.ovals[i][o%len(cs.ovals[i])]
		o /= len(cs.ovals[i])
	}
	return ScoreCase{Ver: cs.vi, A: a}
}

// windowSpace: every window of w consecutive metrics (table order = the order in which the packages pack them
// into bytes) x every combination of their values, all other metrics taken from one of three backgrounds
// (every metric at its first value / at its last value / mixed). Whatever depends on the joint content of one
// or two adjacent bytes of the packed object - a table indexed by a byte, a mask that spans a byte boundary - is
// a function of at most w adjacent metrics, and is therefore walked completely.
type windowSpace struct {
	vi     int
	w      int
	starts []int // first case index of each (window, background)
	n      int
}

func newWindowSpace(vi, w int) *windowSpace {
	v := spec.Versions[vi]
	ws := &windowSpace{vi: vi, w: w}
	if w > len(v.Metrics) {
		ws.w = len(v.Metrics)
	}
	for s := 0; s+ws.w <= len(v.Metrics); s++ {
		prod := 1
		for _, m := range v.Metrics[s : s+ws.w] {
			prod *= len(m.Vals)
		}
		for bg := 0; bg < 3; bg++ {
			ws.starts = append(ws.starts, ws.n)
			ws.n += prod
		}
	}
	return ws
}

func (ws *windowSpace) size() int { return ws.n }

func (ws *windowSpace) assignment(idx int) spec.Assignment {
	v := spec.Versions[ws.vi]
	// locate (window, background)
	lo, hi := 0, len(ws.starts)-1
	for lo < hi {
		mid := (lo + hi + 1) / 2
		if ws.starts[mid] <= idx {
			lo = mid
		} else {
			hi = mid - 1
		}
	}
	win, bg := lo/3, lo%3
	r := idx - ws.starts[lo]
	a := background(v, []int{0, 1, 3}[bg])
	for i := win + ws.w - 1; i >= win; i-- {
		m := v.Metrics[i]
		a[m.Abv] = m.Vals[r%len(m.Vals)]
		r /= len(m.Vals)
	}
	return a
}
