package props

import (
	"errors"
	"fmt"
	"strings"
	"testing"

	"pgregory.net/rapid"

	"verifharness/adapt"
	"verifharness/gen"
	"verifharness/spec"
)

// Defect is a valid vector with exactly one defect of a labelled kind.
type Defect struct {
	Base gen.Valid `json:"base"`
	Kind string    `json:"kind"`
	Pos  int       `json:"pos"`
	Pos2 int       `json:"pos2"`
	Arg  gen.BStr  `json:"arg"`
}

// defect kinds per version family
var defectKinds = map[string][]string{
	"2.0": {"illegal-value", "swap-adjacent", "move", "dup-in-place", "dup-distant", "unknown-insert", "unknown-substitute", "cut", "remove-middle"},
	"3.0": {"header-remove", "header-other", "header-byte", "header-lower", "header-truncate", "header-prefix", "illegal-value", "remove-base", "remove-base-set", "duplicate", "unknown-insert", "unknown-substitute-optional"},
	"3.1": {"header-remove", "header-other", "header-byte", "header-lower", "header-truncate", "header-prefix", "illegal-value", "remove-base", "remove-base-set", "duplicate", "unknown-insert", "unknown-substitute-optional"},
	"4.0": {"header-remove", "header-other", "header-byte", "header-lower", "header-truncate", "header-prefix", "illegal-value", "swap-adjacent", "move", "dup-in-place", "dup-distant", "unknown-insert", "unknown-substitute", "cut", "remove-middle"},
}

func elemsOf(b gen.Valid) (string, []string) {
	v := spec.Versions[b.Ver]
	return v.Header, strings.Split(b.S[len(v.Header):], "/")
}

func insertAt(xs []string, j int, el string) []string {
	out := append([]string{}, xs[:j]...)
	out = append(out, el)
	return append(out, xs[j:]...)
}

func removeAt(xs []string, i int) []string {
	out := append([]string{}, xs[:i]...)
	return append(out, xs[i+1:]...)
}

// build returns the defective string, the expected error class, and ok=false
// when the parameters do not describe a legal single defect (the generator
// only produces legal ones; a shrunk or hand-edited replay may not).
func (d Defect) build() (s string, want string, ok bool) {
	v := spec.Versions[d.Base.Ver]
	hdr, el := elemsOf(d.Base)
	n := len(el)
	arg := string(d.Arg)
	join := func(e []string) string { return hdr + strings.Join(e, "/") }
	body := strings.Join(el, "/")
	in := func(i, lo, hi int) bool { return i >= lo && i < hi }
	abvAt := func(i int) string { a, _, _ := strings.Cut(el[i], ":"); return a }
	cleanAbv := func(a string) bool {
		return a != "" && !strings.ContainsAny(a, "/:") && !v.Has(a)
	}
	switch d.Kind {
	case "header-remove":
		return body, "header", true
	case "header-other":
		if arg == v.Header || !strings.HasPrefix(arg, "CVSS:") {
			return "", "", false
		}
		return arg + body, "header", true
	case "header-byte":
		lim := len(hdr)
		if v.Name == "4.0" {
			lim = 8 // the '/' after CVSS:4.0 is the first element's separator: not asserted
		}
		if !in(d.Pos, 0, lim) || len(arg) != 1 || arg[0] == hdr[d.Pos] {
			return "", "", false
		}
		return hdr[:d.Pos] + arg + hdr[d.Pos+1:] + body, "header", true
	case "header-lower":
		return strings.ToLower(hdr) + body, "header", true
	case "header-truncate":
		min := 1
		if v.Name == "4.0" {
			min = 2
		}
		if !in(d.Pos, min, len(hdr)+1) {
			return "", "", false
		}
		return hdr[:len(hdr)-d.Pos] + body, "header", true
	case "header-prefix":
		if arg == "" {
			return "", "", false
		}
		return arg + hdr + body, "header", true
	case "illegal-value":
		if !in(d.Pos, 0, n) {
			return "", "", false
		}
		m := v.Metric(abvAt(d.Pos))
		if m == nil || m.HasValue(arg) || strings.Contains(arg, "/") {
			return "", "", false
		}
		e := append([]string{}, el...)
		e[d.Pos] = m.Abv + ":" + arg
		return join(e), "value", true
	case "remove-base":
		if !in(d.Pos, 0, n) || !v.Metric(abvAt(d.Pos)).Mandatory {
			return "", "", false
		}
		return join(removeAt(el, d.Pos)), "missing:" + abvAt(d.Pos), true
	case "remove-base-set": // v3: every mandatory metric whose bit is set in Pos (bit j = j-th mandatory metric in specification order) is removed
		var mand []string
		for _, m := range v.Metrics {
			if m.Mandatory {
				mand = append(mand, m.Abv)
			}
		}
		if d.Pos <= 0 || d.Pos >= 1<<len(mand) {
			return "", "", false
		}
		first, gone := "", map[string]bool{}
		for j, a := range mand {
			if d.Pos>>j&1 == 1 {
				gone[a] = true
				if first == "" {
					first = a
				}
			}
		}
		var e []string
		for i := range el {
			if !gone[abvAt(i)] {
				e = append(e, el[i])
			}
		}
		if len(e) == 0 {
			return "", "", false // nothing left after the header: an empty element, not asserted (see the assumption above)
		}
		return join(e), "missing:" + first, true
	case "duplicate": // v3: a copy of element Pos (value Arg) inserted at Pos2
		if !in(d.Pos, 0, n) || !in(d.Pos2, 0, n+1) {
			return "", "", false
		}
		m := v.Metric(abvAt(d.Pos))
		if !m.HasValue(arg) {
			return "", "", false
		}
		return join(insertAt(el, d.Pos2, m.Abv+":"+arg)), "definedn:" + m.Abv, true
	case "unknown-insert":
		if !in(d.Pos, 0, n+1) {
			return "", "", false
		}
		a, val, _ := strings.Cut(arg, ":")
		if !cleanAbv(a) || strings.ContainsAny(val, "/") {
			return "", "", false
		}
		if v.Name == "3.0" || v.Name == "3.1" {
			return join(insertAt(el, d.Pos, arg)), "invalidmetric:" + a, true
		}
		return join(insertAt(el, d.Pos, arg)), "order", true
	case "unknown-substitute-optional", "unknown-substitute":
		if !in(d.Pos, 0, n) || !cleanAbv(arg) {
			return "", "", false
		}
		_, val, _ := strings.Cut(el[d.Pos], ":")
		e := append([]string{}, el...)
		e[d.Pos] = arg + ":" + val
		if d.Kind == "unknown-substitute-optional" {
			if v.Metric(abvAt(d.Pos)).Mandatory {
				return "", "", false
			}
			return join(e), "invalidmetric:" + arg, true
		}
		return join(e), "order", true
	case "swap-adjacent":
		if !in(d.Pos, 0, n-1) {
			return "", "", false
		}
		e := append([]string{}, el...)
		e[d.Pos], e[d.Pos+1] = e[d.Pos+1], e[d.Pos]
		return join(e), "order", true
	case "move":
		if !in(d.Pos, 0, n) || !in(d.Pos2, 0, n) || d.Pos == d.Pos2 {
			return "", "", false
		}
		return join(insertAt(removeAt(el, d.Pos), d.Pos2, el[d.Pos])), "order", true
	case "dup-in-place":
		if !in(d.Pos, 0, n) {
			return "", "", false
		}
		return join(insertAt(el, d.Pos+1, el[d.Pos])), "order", true
	case "dup-distant": // a copy of element Pos inserted later, not adjacent
		if !in(d.Pos, 0, n) || !in(d.Pos2, d.Pos+2, n+1) {
			return "", "", false
		}
		return join(insertAt(el, d.Pos2, el[d.Pos])), "order", true
	case "remove-middle": // v2/v4: an element other than the last is removed, so the following metric is misplaced
		if !in(d.Pos, 0, n-1) {
			return "", "", false
		}
		return join(removeAt(el, d.Pos)), "order", true
	case "cut": // keep the first Pos elements
		if v.Name == "4.0" {
			if !in(d.Pos, 1, 11) {
				return "", "", false
			}
			return join(el[:d.Pos]), "tooshort", true
		}
		if !in(d.Pos, 1, n) {
			return "", "", false
		}
		// group boundaries of this vector's layout are complete vectors, not defects
		bounds := map[string][]int{"base": {6}, "base+temporal": {6, 9}, "base+env": {6, 11}, "base+temporal+env": {6, 9, 14}}[d.Base.Layout]
		for _, b := range bounds {
			if d.Pos == b {
				return "", "", false
			}
		}
		return join(el[:d.Pos]), "tooshort", true
	}
	return "", "", false
}

func classify(p *adapt.Pkg, err error) string {
	switch {
	case err == nil:
		return "accepted"
	case p.Errs.InvalidCVSSHeader != nil && errors.Is(err, p.Errs.InvalidCVSSHeader):
		return "header"
	case errors.Is(err, p.Errs.InvalidMetricValue):
		return "value"
	case p.Errs.InvalidMetricOrder != nil && errors.Is(err, p.Errs.InvalidMetricOrder):
		return "order"
	case errors.Is(err, p.Errs.TooShortVector):
		return "tooshort"
	}
	if p.AsMissing != nil {
		if a, ok := p.AsMissing(err); ok {
			return "missing:" + a
		}
	}
	if p.AsDefinedN != nil {
		if a, ok := p.AsDefinedN(err); ok {
			return "definedn:" + a
		}
	}
	if a, ok := p.AsInvalidMetric(err); ok {
		return "invalidmetric:" + a
	}
	return "other:" + err.Error()
}

// isF3 recognises known finding F3: v2.0, the defect is an element appended
// after a complete environmental group, reported as ErrInvalidMetricValue
// instead of ErrInvalidMetricOrder.
func isF3(d Defect, want, got string) bool {
	if spec.Versions[d.Base.Ver].Name != "2.0" || want != "order" || got != "value" {
		return false
	}
	if d.Base.Layout != "base+env" && d.Base.Layout != "base+temporal+env" {
		return false
	}
	_, el := elemsOf(d.Base)
	n := len(el)
	switch d.Kind {
	case "unknown-insert":
		return d.Pos == n
	case "dup-in-place":
		return d.Pos == n-1
	case "dup-distant":
		return d.Pos2 == n
	}
	return false
}

var errF3 = errors.New("known finding F3")

func checkDefectRaw(d Defect) error {
	s, want, ok := d.build()
	if !ok {
		return nil // not a legal single defect (only reachable through shrinking artefacts)
	}
	p := adapt.Pkgs[d.Base.Ver]
	if spec.Member(p.V, s) {
		return nil // the "defect" left a well-formed vector: nothing to assert
	}
	o, err, pan := p.SafeParse(s)
	if pan != nil {
		return fmt.Errorf("v%s ParseVector(%q) panicked: %v", p.V.Name, s, pan)
	}
	got := classify(p, err)
	if o != nil && err != nil {
		return fmt.Errorf("v%s ParseVector(%q) returned an object together with %v", p.V.Name, s, err)
	}
	if got != want {
		if isF3(d, want, got) {
			return errF3
		}
		return fmt.Errorf("v%s ParseVector(%q) [%s at %d] reports %q (%v), documented error is %q", p.V.Name, s, d.Kind, d.Pos, got, err, want)
	}
	// the error belongs to the caller: after its exported field has been overwritten, the same vector
	// must be reported exactly as before (an error value handed out twice would now name "~tampered~")
	if adapt.Tamper(err) {
		_, err2, _ := p.SafeParse(s)
		if got2 := classify(p, err2); got2 != want {
			return fmt.Errorf("v%s ParseVector(%q) [%s at %d] reports %q the second time, after the caller overwrote the Abv field of the first error it was given; documented error is %q", p.V.Name, s, d.Kind, d.Pos, got2, want)
		}
	}
	return nil
}

// drawDefect draws a legal single defect for a generated valid vector.
func drawDefect(rt *rapid.T) Defect {
	vi := gen.Version(rt)
	v := spec.Versions[vi]
	base := gen.ValidVector(rt, vi)
	_, el := elemsOf(base)
	n := len(el)
	kinds := defectKinds[v.Name]
	d := Defect{Base: base, Kind: kinds[rapid.IntRange(0, len(kinds)-1).Draw(rt, "kind")]}
	pos := func(lo, hi int, label string) int { // [lo,hi)
		if hi <= lo {
			return lo
		}
		return rapid.IntRange(lo, hi-1).Draw(rt, label)
	}
	unknownAbv := func() string {
		for tries := 0; ; tries++ {
			var a string
			if rapid.IntRange(0, 9).Draw(rt, "longabv") == 0 {
				// long unknown abbreviations (an error value that truncates what it carries)
				n := []int{31, 32, 33, 64, 65, 100, 255, 256, 257, 1000, 70000}[rapid.IntRange(0, 10).Draw(rt, "abvlen")]
				a = strings.Repeat(rapid.StringMatching(`[A-Za-z]{1,3}`).Draw(rt, "unit"), n)[:n]
			} else if rapid.IntRange(0, 7).Draw(rt, "hdrlike") == 0 {
				// what a header looks like to a parser that expects none / another one ("CVSS:2.0/AV:N/..." is a
				// v2.0 vector with the unknown metric CVSS in front)
				a = []string{"CVSS", "cvss", "Cvss", "CVSS2", "CVSSv2", "CVSS3", "VERSION", "V"}[rapid.IntRange(0, 7).Draw(rt, "hdrabv")]
			} else if rapid.IntRange(0, 7).Draw(rt, "punct") == 0 {
				// an abbreviation that starts or ends with a punctuation byte next to the separators in the ASCII table
				// ('.' = '/'^1, '-', ',', '0', ';' = ':'^1, '9'): a word-at-a-time separator scan that is exact only for the
				// first match in a word cuts such an element in the wrong place
				pc := string(".-,0;9!_ "[rapid.IntRange(0, 8).Draw(rt, "pchar")])
				body := rapid.StringMatching(`[A-Za-z]{1,3}`).Draw(rt, "pbody")
				a = []string{pc + body, body + pc, pc + body + pc}[rapid.IntRange(0, 2).Draw(rt, "pshape")]
			} else if rapid.IntRange(0, 3).Draw(rt, "abvsrc") == 0 {
				a = rapid.StringMatching(`[A-Za-z]{1,4}`).Draw(rt, "rndabv")
			} else {
				a = gen.AllAbvs()[rapid.IntRange(0, len(gen.AllAbvs())-1).Draw(rt, "poolabv")]
			}
			if a != "" && !strings.ContainsAny(a, "/:") && !v.Has(a) {
				return a
			}
			if tries > 20 {
				return "ZZ"
			}
		}
	}
	switch d.Kind {
	case "header-other":
		var hs []string
		for _, o := range spec.Versions {
			if o.Header != "" && o.Header != v.Header {
				hs = append(hs, o.Header)
			}
		}
		hs = append(hs, "CVSS:2.0/", "CVSS:3.2/", "CVSS:4.1/", "CVSS:1.0/")
		d.Arg = gen.BStr(hs[rapid.IntRange(0, len(hs)-1).Draw(rt, "hdr")])
	case "header-byte":
		lim := len(v.Header)
		if v.Name == "4.0" {
			lim = 8
		}
		d.Pos = pos(0, lim, "pos")
		b := rapid.Byte().Filter(func(b byte) bool { return b != v.Header[d.Pos] }).Draw(rt, "byte")
		d.Arg = gen.BStr(string([]byte{b}))
	case "header-truncate":
		min := 1
		if v.Name == "4.0" {
			min = 2
		}
		d.Pos = pos(min, len(v.Header)+1, "pos")
	case "header-prefix":
		d.Arg = gen.BStr([]string{" ", "\t", "\n", "/", "x", "\x00", "C", "CVSS:", "\ufeff"}[rapid.IntRange(0, 8).Draw(rt, "pfx")])
	case "illegal-value":
		d.Pos = pos(0, n, "pos")
		a, val, _ := strings.Cut(el[d.Pos], ":")
		m := v.Metric(a)
		var cands []string
		for _, x := range append([]string{"", strings.ToLower(val), val + " ", " " + val, val + val, val + ":" + val, "Q", "0"}, gen.AllVals()...) {
			if !m.HasValue(x) && !strings.Contains(x, "/") {
				cands = append(cands, x)
			}
		}
		d.Arg = gen.BStr(cands[rapid.IntRange(0, len(cands)-1).Draw(rt, "bad")])
	case "remove-base":
		var idx []int
		for i := range el {
			a, _, _ := strings.Cut(el[i], ":")
			if v.Metric(a).Mandatory {
				idx = append(idx, i)
			}
		}
		d.Pos = idx[rapid.IntRange(0, len(idx)-1).Draw(rt, "pos")]
	case "remove-base-set":
		d.Pos = rapid.IntRange(1, 255).Draw(rt, "mask")
	case "duplicate":
		d.Pos = pos(0, n, "pos")
		d.Pos2 = pos(0, n+1, "pos2")
		a, val, _ := strings.Cut(el[d.Pos], ":")
		if rapid.Bool().Draw(rt, "sameval") {
			d.Arg = gen.BStr(val)
		} else {
			m := v.Metric(a)
			d.Arg = gen.BStr(m.Vals[rapid.IntRange(0, len(m.Vals)-1).Draw(rt, "val")])
		}
	case "unknown-insert":
		d.Pos = pos(0, n+1, "pos")
		if rapid.IntRange(0, 2).Draw(rt, "atend") == 0 {
			d.Pos = n
		}
		val := []string{"N", "H", "X", "ND", "L", "2.0", "3.1", "4.0", ""}[rapid.IntRange(0, 8).Draw(rt, "uval")]
		d.Arg = gen.BStr(unknownAbv() + ":" + val)
	case "unknown-substitute":
		d.Pos = pos(0, n, "pos")
		d.Arg = gen.BStr(unknownAbv())
	case "unknown-substitute-optional":
		var idx []int
		for i := range el {
			a, _, _ := strings.Cut(el[i], ":")
			if !v.Metric(a).Mandatory {
				idx = append(idx, i)
			}
		}
		if len(idx) == 0 {
			d.Kind = "unknown-insert"
			d.Pos = pos(0, n+1, "pos")
			d.Arg = gen.BStr(unknownAbv() + ":N")
		} else {
			d.Pos = idx[rapid.IntRange(0, len(idx)-1).Draw(rt, "pos")]
			d.Arg = gen.BStr(unknownAbv())
		}
	case "swap-adjacent", "remove-middle":
		d.Pos = pos(0, n-1, "pos")
	case "move":
		d.Pos = pos(0, n, "pos")
		d.Pos2 = rapid.IntRange(0, n-1).Filter(func(j int) bool { return j != d.Pos }).Draw(rt, "pos2")
	case "dup-in-place":
		d.Pos = pos(0, n, "pos")
		if rapid.IntRange(0, 3).Draw(rt, "last") == 0 {
			d.Pos = n - 1
		}
	case "dup-distant":
		d.Pos = pos(0, n-1, "pos")
		d.Pos2 = pos(d.Pos+2, n+1, "pos2")
		if rapid.IntRange(0, 2).Draw(rt, "atend") == 0 {
			d.Pos2 = n
		}
	case "cut":
		if v.Name == "4.0" {
			d.Pos = pos(1, 11, "pos")
		} else {
			bounds := map[int]bool{6: true, 9: base.Layout == "base+temporal" || base.Layout == "base+temporal+env", 11: base.Layout == "base+env", 14: true}
			d.Pos = rapid.IntRange(1, n-1).Filter(func(k int) bool { return !bounds[k] }).Draw(rt, "pos")
		}
	}
	return d
}

// API-level error values: Get / Set.
type GetSetErr struct {
	Ver int      `json:"ver"`
	Op  string   `json:"op"` // get-unknown | set-unknown | set-illegal
	Abv gen.BStr `json:"abv"`
	Val gen.BStr `json:"val"`
}

func checkGetSetErr(c GetSetErr) error {
	p := adapt.Pkgs[c.Ver]
	abv, val := string(c.Abv), string(c.Val)
	o := p.Zero()
	switch c.Op {
	case "get-unknown":
		if p.V.Has(abv) {
			return nil
		}
		g, err := o.Get(abv)
		a, ok := p.AsInvalidMetric(err)
		if err == nil || !ok || a != abv || g != "" {
			return fmt.Errorf("v%s Get(%q) = %q, %v; want \"\" and *ErrInvalidMetric{%q}", p.V.Name, abv, g, err, abv)
		}
		// the error value keeps carrying its abbreviation after later failing calls
		text := err.Error()
		o.Get("Q" + abv)
		o.Set("QQ"+abv, val)
		if a2, _ := p.AsInvalidMetric(err); a2 != abv || err.Error() != text {
			return fmt.Errorf("v%s: the error returned by Get(%q) changed after later failing calls: now %q (abbreviation %q), was %q", p.V.Name, abv, err.Error(), a2, text)
		}
		adapt.Tamper(err)
		if _, err2 := o.Get(abv); err2 == nil {
			return fmt.Errorf("v%s Get(%q) succeeds the second time", p.V.Name, abv)
		} else if a3, ok := p.AsInvalidMetric(err2); !ok || a3 != abv {
			return fmt.Errorf("v%s Get(%q) returns %v after the caller overwrote the Abv field of the error of the previous identical call; want *ErrInvalidMetric{%q}", p.V.Name, abv, err2, abv)
		}
	case "set-unknown":
		if p.V.Has(abv) {
			return nil
		}
		err := o.Set(abv, val)
		a, ok := p.AsInvalidMetric(err)
		if err == nil || !ok || a != abv {
			return fmt.Errorf("v%s Set(%q,%q) = %v; want *ErrInvalidMetric{%q}", p.V.Name, abv, val, err, abv)
		}
		text := err.Error()
		o.Set("Q"+abv, val)
		o.Get("QQ" + abv)
		if a2, _ := p.AsInvalidMetric(err); a2 != abv || err.Error() != text {
			return fmt.Errorf("v%s: the error returned by Set(%q,..) changed after later failing calls: now %q (abbreviation %q), was %q", p.V.Name, abv, err.Error(), a2, text)
		}
		adapt.Tamper(err)
		if a3, ok := p.AsInvalidMetric(o.Set(abv, val)); !ok || a3 != abv {
			return fmt.Errorf("v%s Set(%q,%q) does not return *ErrInvalidMetric{%q} after the caller overwrote the Abv field of the error of the previous identical call", p.V.Name, abv, val, abv)
		}
	case "set-illegal":
		m := p.V.Metric(abv)
		if m == nil || m.HasValue(val) {
			return nil
		}
		err := o.Set(abv, val)
		if err == nil || !errors.Is(err, p.Errs.InvalidMetricValue) {
			return fmt.Errorf("v%s Set(%q,%q) = %v; want ErrInvalidMetricValue", p.V.Name, abv, val, err)
		}
	}
	return nil
}

func TestC18(t *testing.T) {
	h := start(t, "C18", "a valid vector (C06 generator) with exactly one defect of a labelled kind at a generated position (header: removed / other version's / one byte changed / lower-cased / truncated / prefixed; illegal value; v3: base metric removed, any subset of the base metrics removed (the first missing one in specification order is named), metric duplicated anywhere, unknown abbreviation inserted or substituted for an optional one; v2/v4: adjacent swap, move, in-place and distant duplication, unknown abbreviation inserted or substituted, cut inside a group), expected error known by construction; plus Get/Set with unknown abbreviations and illegal values (the returned error is inspected again after later failing calls); every case is a rejected near-miss, distinct by defective string")
	h.R.Assume("only the error classes the statement names unambiguously are asserted; empty elements, a trailing '/', bytes after an intact v4 header and multi-defect strings are left to C01 (rejection only)")
	n := env.Scale(120000, 300000)
	if env.Shards > 1 {
		n = env.Scale(120000, 600000)
	}
	_, f3known := h.known["F3"]
	seen := map[string]bool{}
	masks := map[string]map[int]bool{"3.0": {}, "3.1": {}}
	check := func(d Defect) error {
		err := checkDefectRaw(d)
		if err == errF3 {
			if f3known {
				return nil
			}
			s, want, _ := d.build()
			return fmt.Errorf("v2.0 ParseVector(%q) [%s] reports ErrInvalidMetricValue, documented error is %q (finding F3, not listed as known)", s, d.Kind, want)
		}
		return err
	}
	Rapid(h, "defect", n, func(rt *rapid.T) Defect {
		d := drawDefect(rt)
		s, want, ok := d.build()
		v := spec.Versions[d.Base.Ver]
		cls := want
		if i := strings.IndexByte(cls, ':'); i >= 0 {
			cls = cls[:i]
		}
		label := fmt.Sprintf("v%s %s -> %s", v.Name, d.Kind, cls)
		key := ""
		if ok && !spec.Member(v, s) {
			key = "V" + v.Name + s
			if checkDefectRaw(d) == errF3 {
				h.R.Known("F3", 1)
				label += " [F3 site]"
			}
		} else {
			label += " (not a defect)"
		}
		_, el := elemsOf(d.Base)
		if ok && d.Kind == "remove-base-set" {
			masks[v.Name][d.Pos] = true
		} else if ok && d.Pos < len(el) {
			a, _, _ := strings.Cut(el[d.Pos], ":")
			seen[v.Name+"/"+d.Kind+"/"+a] = true
		}
		h.R.Case(label, key)
		if h.R.WantSample(label) {
			h.R.Sample(label, map[string]any{"s": s, "expected": want})
		}
		return d
	}, check)
	if env.Shards <= 1 {
		// exhaustive grid: every non-empty subset of the eight v3 base metrics removed from three layouts (base only,
		// every metric, every metric in reverse order) of both v3 versions; *ErrMissing must name the first missing
		// metric in specification order
		const b3 = "AV:N/AC:L/PR:N/UI:N/S:U/C:H/I:H/A:H"
		const f3 = b3 + "/E:F/RL:O/RC:C/CR:H/IR:M/AR:L/MAV:A/MAC:H/MPR:L/MUI:R/MS:C/MC:L/MI:N/MA:H"
		el := strings.Split(f3, "/")
		rev := make([]string, len(el))
		for i := range el {
			rev[len(el)-1-i] = el[i]
		}
		bodies := []string{b3, f3, strings.Join(rev, "/")}
		Enum(h, "defect", 2*len(bodies)*255, func(i int) Defect {
			vi, r := 1+i/(len(bodies)*255), i%(len(bodies)*255)
			return Defect{Base: gen.Valid{Ver: vi, S: spec.Versions[vi].Header + bodies[r/255]}, Kind: "remove-base-set", Pos: 1 + r%255}
		}, nil, check)
		if !h.replaying() {
			h.R.AddExact(int64(2*len(bodies)*255), int64(2*len(bodies)*255-2))
			h.R.Count("exhaustive: every non-empty subset of the v3 base metrics removed (255) x 3 layouts x 2 versions", int64(2*len(bodies)*255))
		}
		// exhaustive grid: Set with every pooled abbreviation that is not a metric of the version x every pooled
		// value (an early exit on one particular value, taken before the abbreviation is looked at, is in here),
		// and Get with every such abbreviation
		abvs, vals := gen.AllAbvs(), gen.AllVals()
		per := len(abvs) * (len(vals) + 1)
		Enum(h, "getset", 4*per, func(i int) GetSetErr {
			vi, r := i/per, i%per
			a, k := abvs[r/(len(vals)+1)], r%(len(vals)+1)
			if k == len(vals) {
				return GetSetErr{Ver: vi, Op: "get-unknown", Abv: gen.BStr(a)}
			}
			return GetSetErr{Ver: vi, Op: "set-unknown", Abv: gen.BStr(a), Val: gen.BStr(vals[k])}
		}, nil, checkGetSetErr)
		if !h.replaying() {
			unknown := 0
			for _, v := range spec.Versions {
				for _, a := range abvs {
					if !v.Has(a) {
						unknown++
					}
				}
			}
			h.R.AddExact(int64(4*per), int64(unknown*(len(vals)+1)))
			h.R.Count(fmt.Sprintf("exhaustive: Get / Set with every pooled abbreviation unknown to the version (%d in all) x every pooled value (%d)", unknown, len(vals)), int64(4*per))
		}
	}
	Rapid(h, "getset", n/3, func(rt *rapid.T) GetSetErr {
		vi := gen.Version(rt)
		v := spec.Versions[vi]
		c := GetSetErr{Ver: vi, Op: []string{"get-unknown", "set-unknown", "set-illegal"}[rapid.IntRange(0, 2).Draw(rt, "op")]}
		abvPool, valPool := gen.AllAbvs(), gen.AllVals()
		if c.Op == "set-illegal" {
			m := v.Metrics[rapid.IntRange(0, len(v.Metrics)-1).Draw(rt, "m")]
			c.Abv = gen.BStr(m.Abv)
			if rapid.IntRange(0, 4).Draw(rt, "rawval") == 0 {
				c.Val = gen.BStr(gen.Raw(rt))
			} else {
				c.Val = gen.BStr(valPool[rapid.IntRange(0, len(valPool)-1).Draw(rt, "val")])
			}
		} else {
			if r := rapid.IntRange(0, 9).Draw(rt, "rawabv"); r < 2 {
				c.Abv = gen.BStr(gen.Raw(rt))
			} else if r == 2 {
				n := []int{31, 32, 33, 64, 65, 100, 255, 256, 257, 1000, 70000}[rapid.IntRange(0, 10).Draw(rt, "abvlen")]
				c.Abv = gen.BStr(strings.Repeat(rapid.StringMatching(`[A-Za-z]{1,3}`).Draw(rt, "unit"), n)[:n])
			} else {
				c.Abv = gen.BStr(abvPool[rapid.IntRange(0, len(abvPool)-1).Draw(rt, "abv")])
			}
			c.Val = gen.BStr(valPool[rapid.IntRange(0, len(valPool)-1).Draw(rt, "val")])
		}
		key := fmt.Sprintf("G%d%s|%s|%s", vi, c.Op, string(c.Abv), string(c.Val))
		applicable := (c.Op == "set-illegal" && !v.Metric(string(c.Abv)).HasValue(string(c.Val))) || (c.Op != "set-illegal" && !v.Has(string(c.Abv)))
		if !applicable {
			key = ""
		}
		h.R.Case(fmt.Sprintf("v%s %s applicable=%v", v.Name, c.Op, applicable), key)
		if h.R.WantSample(c.Op) {
			h.R.Sample(c.Op, c)
		}
		return c
	}, checkGetSetErr)
	if h.replaying() {
		return
	}
	// coverage: every (version, positional kind, metric at position) must have been drawn
	missing := 0
	for _, v := range spec.Versions {
		for _, k := range defectKinds[v.Name] {
			if strings.HasPrefix(k, "header") || k == "cut" || k == "remove-base-set" || k == "unknown-insert" || k == "dup-distant" || k == "swap-adjacent" || k == "move" || k == "remove-middle" {
				continue
			}
			for _, m := range v.Metrics {
				if k == "remove-base" && !m.Mandatory || k == "unknown-substitute-optional" && m.Mandatory {
					continue
				}
				if !seen[v.Name+"/"+k+"/"+m.Abv] && !env.Light {
					missing++
					h.R.Inconclusive("defect kind %s never applied to v%s metric %s", k, v.Name, m.Abv)
				}
			}
		}
	}
	h.R.Extra("missing_base_subsets", fmt.Sprintf("random part: v3.0 %d of 255 subsets of removed base metrics drawn, v3.1 %d of 255; the grid has all 255 x 3 layouts x 2 versions", len(masks["3.0"]), len(masks["3.1"])))
	h.R.Extra("defect_kind_x_metric_coverage", fmt.Sprintf("%d (version, kind, metric) combinations drawn, %d missing", len(seen), missing))
}
