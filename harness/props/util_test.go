package props

import "errors"

func isErr(err, target error) bool { return target != nil && errors.Is(err, target) }
