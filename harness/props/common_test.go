package props

import (
	"encoding/json"
	"flag"
	"fmt"
	"io"
	"os"
	"runtime"
	"runtime/trace"
	"strconv"
	"sync"
	"sync/atomic"
	"testing"

	"pgregory.net/rapid"

	"verifharness/ev"
)

var env = ev.GetEnv()

func TestMain(m *testing.M) {
	flag.Parse()
	seed := uint64(env.Seed)
	if env.Shards > 1 {
		seed = seed*1000 + uint64(env.Shard) + 1
	}
	if seed == 0 {
		seed = 0x5eed5eed // rapid treats 0 as "random"
	}
	flag.Set("rapid.seed", strconv.FormatUint(seed, 10))
	flag.Set("rapid.nofailfile", "true")
	if os.Getenv("VERIF_TRACE") == "1" {
		// the execution tracer is on for the whole run of this (side) process: code that behaves
		// differently while a trace is being taken (trace.IsEnabled, regions, logging) is exercised
		if err := trace.Start(io.Discard); err == nil {
			defer trace.Stop()
		}
	}
	os.RemoveAll("testdata/rapid")
	code := m.Run()
	trace.Stop()
	os.Exit(code)
}

// H is the per-property harness: recorder + replay dispatch.
type H struct {
	t      *testing.T
	R      *ev.Recorder
	replay *ev.Replay
	ran    bool // replay mode: a kind matched
	known  map[string]ev.Finding
}

// start opens a property check. In replay mode only the sub-check whose kind
// matches the replay file evaluates its case.
func start(t *testing.T, prop, rule string) *H {
	h := &H{t: t, R: ev.New(prop, env, rule), known: ev.KnownMatchers(env, prop)}
	if env.Replay != "" {
		rp, err := ev.LoadReplay(env.Replay)
		if err != nil {
			t.Fatalf("HARNESS-ERROR cannot load replay: %v", err)
		}
		if rp.Prop != prop {
			t.Skipf("replay is for %s", rp.Prop)
		}
		h.replay = rp
		t.Cleanup(func() {
			if !h.ran {
				t.Errorf("HARNESS-ERROR replay kind %q not handled by %s", rp.Kind, prop)
			}
		})
		return h
	}
	if env.Phase == "g126" {
		h.R.Assume("a further process runs this check built by " + runtime.Version() + " (the newer Go release installed beside the default one, GOAMD64=v3 where the CPU allows: fused multiply-add as on arm64; confined to 3 CPUs) on the lighter workload: another compiler and runtime; its cases count as evaluations, not as additional distinct cases")
	} else if env.Light {
		h.R.Assume("a second process runs this check built for GOARCH=386 (int and uint are 32 bits wide), the library compiled with -N -l and -tags purego, the execution tracer on, confined to 5 CPUs, on a lighter workload: large enumerations sampled at a prime stride, rapid counts divided by 4, another seed; its cases count as evaluations, not as additional distinct cases")
	}
	if env.Phase == "plain" {
		h.R.Assume("a second process runs the sequential families and the retention runs of this check in a build without the race detector (under -race sync.Pool drops a quarter of its entries at random, so pooled state never grows old there)")
	}
	t.Cleanup(func() {
		h.R.ClearPending()
		if err := h.R.WritePart(); err != nil {
			t.Errorf("HARNESS-ERROR writing evidence part: %v", err)
		}
	})
	return h
}

func (h *H) replaying() bool { return h.replay != nil }

// fail records a violation, saves the replay file and fails the test.
func (h *H) fail(kind string, c any, err error) {
	h.R.Violation()
	path := h.R.SaveReplay(kind, c, err)
	h.t.Fatalf("VIOLATION-CANDIDATE property=%s kind=%s replay=%s\n%v", h.R.Prop, kind, path, err)
}

// safely evaluates a check, turning a panic (in the code under test) into a
// failing case.
func safely[C any](check func(C) error, c C) (err error) {
	defer func() {
		if r := recover(); r != nil {
			buf := make([]byte, 4096)
			n := runtime.Stack(buf, false)
			err = fmt.Errorf("panic: %v\n%s", r, buf[:n])
		}
	}()
	return check(c)
}

// doReplay evaluates the replay case if kind matches; returns true in replay mode.
func doReplay[C any](h *H, kind string, check func(C) error) bool {
	if h.replay == nil {
		return false
	}
	if h.replay.Kind != kind {
		return true
	}
	h.ran = true
	var c C
	if err := json.Unmarshal(h.replay.Case, &c); err != nil {
		h.t.Fatalf("HARNESS-ERROR cannot decode replay case: %v", err)
	}
	if err := safely(check, c); err != nil {
		h.t.Fatalf("VIOLATION-REPLAY property=%s kind=%s\n%v", h.R.Prop, kind, err)
	}
	fmt.Printf("replay of %s/%s: property holds on this case\n", h.R.Prop, kind)
	return true
}

// Rapid drives check with rapid-generated cases (n cases). gen must draw every
// random choice from the *rapid.T. The wrapper overwrites the replay file on
// every failing call; rapid re-runs the minimal counterexample last.
func Rapid[C any](h *H, kind string, n int, gen func(*rapid.T) C, check func(C) error) {
	if doReplay(h, kind, check) {
		return
	}
	flag.Set("rapid.checks", strconv.Itoa(n))
	var failed atomic.Bool
	var lastPath string
	var lastErr error
	rapid.Check(quiet{h.t, &failed}, func(rt *rapid.T) {
		c := gen(rt)
		h.R.Pending(kind, c)
		if err := safely(check, c); err != nil {
			lastPath = h.R.SaveReplay(kind, c, err)
			lastErr = err
			rt.Fatalf("%v", err)
		}
	})
	if failed.Load() {
		h.R.Violation()
		h.t.Fatalf("VIOLATION-CANDIDATE property=%s kind=%s replay=%s\n%v", h.R.Prop, kind, lastPath, lastErr)
	}
}

// quiet adapts *testing.T for rapid so that a failing rapid.Check does not abort
// the goroutine before the harness has reported (rapid calls FailNow).
type quiet struct {
	*testing.T
	failed *atomic.Bool
}

func (q quiet) Errorf(format string, args ...any) {
	q.failed.Store(true)
	q.T.Logf("[rapid-error] "+format, args...)
}
func (q quiet) Fatalf(format string, args ...any) {
	q.failed.Store(true)
	q.T.Logf("[rapid-fatal] "+format, args...)
	runtime.Goexit()
}
func (q quiet) Error(args ...any) { q.failed.Store(true); q.T.Log(args...) }
func (q quiet) Fatal(args ...any) { q.failed.Store(true); q.T.Log(args...); runtime.Goexit() }
func (q quiet) FailNow()          { q.failed.Store(true) }
func (q quiet) Fail()             { q.failed.Store(true) }
func (q quiet) Failed() bool      { return q.failed.Load() }

// Enum drives check over a complete, index-addressable enumeration of n cases
// on all cores. fast is the bulk evaluator (returns false on a suspected
// mismatch); decode produces the JSON case for an index; check is the
// single-case arbiter used for confirmation and replay. The smallest failing
// index is reported.
func Enum[C any](h *H, kind string, n int, decode func(int) C, fast func(i int) bool, check func(C) error) {
	if doReplay(h, kind, check) {
		return
	}
	workers := runtime.GOMAXPROCS(0)
	var wg sync.WaitGroup
	var mu sync.Mutex
	first := -1
	var firstErr error
	var next int64
	const chunk = 1024
	// the light (32-bit) process samples large spaces: every stride-th index, stride prime so that it
	// does not lock onto one digit pattern of a mixed-radix space, offset moving with the seed
	stride, off := 1, 0
	if env.Light && n > lightCap {
		stride = nextPrime(n / lightCap)
		off = int(env.Seed % int64(stride))
		h.R.Count(fmt.Sprintf("light process: %s space sampled at stride %d", kind, stride), int64(n/stride))
	}
	for w := 0; w < workers; w++ {
		wg.Add(1)
		go func() {
			defer wg.Done()
			for {
				lo := int(atomic.AddInt64(&next, chunk)) - chunk
				if lo >= n {
					return
				}
				hi := lo + chunk
				if hi > n {
					hi = n
				}
				for i := lo; i < hi; i++ {
					if stride > 1 && i%stride != off {
						continue
					}
					var err error
					if fast == nil {
						// the single-case check is the evaluator: its verdict stands even if a
						// re-evaluation would differ (a result that depends on call history is a failure too)
						err = safely(check, decode(i))
					} else {
						ok := func() (ok bool) {
							defer func() {
								if r := recover(); r != nil {
									ok = false
								}
							}()
							return fast(i)
						}()
						if !ok {
							err = errFlagged
						}
					}
					if err != nil {
						mu.Lock()
						if first < 0 || i < first {
							first, firstErr = i, err
						}
						mu.Unlock()
					}
				}
			}
		}()
	}
	wg.Wait()
	if first < 0 {
		return
	}
	c := decode(first)
	if fast == nil {
		h.fail(kind, c, firstErr)
	}
	err := safely(check, c)
	if err == nil {
		h.t.Fatalf("HARNESS-ERROR %s/%s: bulk evaluator flagged index %d but the single-case check passes", h.R.Prop, kind, first)
	}
	h.fail(kind, c, err)
}

const lightCap = 150000

func nextPrime(n int) int {
	if n < 2 {
		return 2
	}
	for ; ; n++ {
		p := true
		for d := 2; d*d <= n; d++ {
			if n%d == 0 {
				p = false
				break
			}
		}
		if p {
			return n
		}
	}
}

var errFlagged = fmt.Errorf("flagged by the bulk evaluator")

// parallelFor runs body(i) for i in [0,n) on all cores.
func parallelFor(n int, body func(i int)) {
	workers := runtime.GOMAXPROCS(0)
	var wg sync.WaitGroup
	var next int64
	for w := 0; w < workers; w++ {
		wg.Add(1)
		go func() {
			defer wg.Done()
			for {
				i := int(atomic.AddInt64(&next, 1)) - 1
				if i >= n {
					return
				}
				body(i)
			}
		}()
	}
	wg.Wait()
}
