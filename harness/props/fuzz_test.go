package props

import (
	"math"
	"testing"

	"pgregory.net/rapid"

	"verifharness/adapt"
	"verifharness/ev"
	"verifharness/gen"
	"verifharness/spec"
)

// Native coverage-guided fuzz targets (thorough tier only). The semantic oracle
// is inside the target; a failing input is written as a replay file of the same
// kind as the rapid checks use, so `check <ID> --replay` re-evaluates it.

var upstreamSeeds = []string{
	"AV:N/AC:L/Au:N/C:N/I:N/A:C", "AV:N/AC:L/Au:N/C:C/I:C/A:C", "AV:L/AC:H/Au:N/C:C/I:C/A:C",
	"AV:N/AC:L/Au:N/C:P/I:P/A:C/E:U/RL:OF/RC:C/CDP:MH/TD:H/CR:M/IR:M/AR:M",
	"AV:A/AC:L/Au:N/C:C/I:C/A:C/CDP:H/TD:H/CR:H/IR:ND/AR:ND", "AV:A/AC:L/Au:N/C:C/I:C/A:C/CDP:H/TD:H/CR:H/IR:ND/AR:H/",
	"AV:L/AC:L/Au:M/C:InVaLiD/I:P/A:N", "//////////////",
	"CVSS:3.0/AV:N/AC:L/PR:N/UI:N/S:U/C:H/I:H/A:H", "CVSS:3.1/AV:N/AC:L/PR:L/UI:R/S:C/C:L/I:L/A:N",
	"CVSS:3.1/I:L/MA:H/AR:H/UI:N/AC:H/C:H/AV:N/A:L/MUI:N/MI:H/RC:C/CR:H/IR:H/PR:L/MAV:N/MAC:L/MPR:N/E:H/MS:C/MC:H/RL:O/S:U",
	"CVSS:3.1/AV:N/AC:H/PR:L/UI:N/S:U/C:H/I:L/A:L/E:X/RL:O/RC:C/CR:H/IR:H/AR:H/MAV:N/MAC:L/MPR:N/MUI:N/MS:C/MC:H/MI:H/MA:X",
	"CVSS:4.0/AV:N/AC:L/AT:N/PR:H/UI:N/VC:L/VI:L/VA:N/SC:N/SI:N/SA:N",
	"CVSS:4.0/AV:N/AC:L/AT:N/PR:H/UI:N/VC:L/VI:L/VA:N/SC:N/SI:N/SA:N/E:U/CR:L/IR:H/AR:L/MAV:A/MAC:H/MAT:N/MPR:N/MUI:P/MVC:H/MVI:N/MVA:H/MSC:N/MSI:L/MSA:S/S:N/AU:N/R:I/V:C/RE:H/U:Green",
	"CVSS:4.0/AV:P/AC:H/AT:P/PR:L/UI:P/VC:H/VI:H/VA:H/SC:L/SI:L/SA:L/E:A/S:P/AU:Y/R:A/V:D/RE:L/U:Red",
	"", "/", "CVSS:4.0", "CVSS:4.0/", "CVSS:3.1/", "CVSS:3.0/", ":", "AV:", "CVSS:4.0/AV:F/AC:L", "CVSS:4.0/AV:N/AC:L/AT:N/PR:H/ui:N",
}

func addStringSeeds(f *testing.F) {
	for _, s := range upstreamSeeds {
		f.Add(s)
	}
	g := rapid.Custom(func(t *rapid.T) string { return string(gen.AnyString(t).S) })
	for i := 0; i < 200; i++ {
		f.Add(g.Example(i + 1))
	}
}

func fuzzFail(t *testing.T, prop, kind string, c any, err error) {
	r := ev.New(prop, env, "")
	path := r.SaveReplay(kind, c, err)
	t.Fatalf("VIOLATION-CANDIDATE property=%s kind=%s replay=%s\n%v", prop, kind, path, err)
}

func FuzzC01(f *testing.F) {
	addStringSeeds(f)
	f.Fuzz(func(t *testing.T, s string) {
		c := gen.Str{S: gen.BStr(s), Source: "fuzz"}
		if err := safely(checkGrammar, c); err != nil {
			fuzzFail(t, "C01", "string", c, err)
		}
	})
}

func checkOneVersionAndOwner(c gen.Str) error {
	if err := checkOneVersion(c); err != nil {
		return err
	}
	// if some parser accepts it, the object's Vector() belongs to that version only
	for _, p := range adapt.Pkgs {
		o, err, _ := p.SafeParse(string(c.S))
		if err != nil || o == nil {
			continue
		}
		a, err := p.Read(o)
		if err != nil {
			return err
		}
		return checkVectorOwner(VecOut{Ver: p.ID, A: a})
	}
	return nil
}

func FuzzC13(f *testing.F) {
	addStringSeeds(f)
	f.Fuzz(func(t *testing.T, s string) {
		c := gen.Str{S: gen.BStr(s), Source: "fuzz"}
		if err := safely(checkOneVersionAndOwner, c); err != nil {
			fuzzFail(t, "C13", "fuzz-string", c, err)
		}
	})
}

func FuzzC09(f *testing.F) {
	for vi, v := range spec.Versions {
		for _, m := range v.Metrics {
			f.Add(uint8(vi), m.Abv, m.Vals[len(m.Vals)-1])
			f.Add(uint8(vi+4), m.Abv, "x")
		}
	}
	f.Add(uint8(0), "", "")
	f.Add(uint8(3), "av", "n")
	f.Fuzz(func(t *testing.T, sel uint8, abv, val string) {
		vi := int(sel % 4)
		c := Offer{Ver: vi, A: background(spec.Versions[vi], int(sel/4)%nBackgrounds), Abv: gen.BStr(abv), Val: gen.BStr(val)}
		if err := safely(checkOffer, c); err != nil {
			fuzzFail(t, "C09", "offer", c, err)
		}
	})
}

func FuzzC15(f *testing.F) {
	for _, x := range boundaryFloats() {
		f.Add(math.Float64bits(x))
	}
	f.Fuzz(func(t *testing.T, bits uint64) {
		c := RatingCase{Bits: bits}
		if err := safely(checkRating, c); err != nil {
			fuzzFail(t, "C15", "float", c, err)
		}
	})
}
