package props

import (
	"fmt"
	"math"
	"sync/atomic"
	"testing"

	gocvss20 "github.com/pandatix/go-cvss/20"
	gocvss30 "github.com/pandatix/go-cvss/30"
	gocvss31 "github.com/pandatix/go-cvss/31"
	gocvss40 "github.com/pandatix/go-cvss/40"
	"pgregory.net/rapid"

	"verifharness/adapt"
	"verifharness/gen"
	"verifharness/spec"
)

// ---------------------------------------------------------------- C10

// MetaCase: an object and a transformation that must not change certain scores.
type MetaCase struct {
	Ver    int               `json:"ver"`
	A      map[string]string `json:"assignment"`
	Rel    string            `json:"relation"`
	Metric string            `json:"metric"`
	Val    string            `json:"value"`
}

// which scores must be invariant under each relation (indices into Scores()).
func metaInvariant(v *spec.Version, rel string, metric string) []int {
	last := len(adapt.ScoreNames[v.Name]) - 1
	switch rel {
	case "R1-explicit-copy", "R2-overridden-base":
		return []int{last}
	case "R3-env-ignored":
		if m := v.Metric(metric); m != nil && m.Group == "temporal" {
			return []int{0}
		}
		return []int{0, 1}
	case "R4-default":
		if v.Name == "4.0" {
			return []int{0}
		}
		return []int{0, 1, 2}
	case "R5-supplemental":
		return []int{0}
	}
	return nil
}

// transform applies the relation; ok=false if it does not apply to this object.
func (c MetaCase) transform() (spec.Assignment, bool) {
	v := spec.Versions[c.Ver]
	a := spec.Assignment(c.A).Clone()
	m := v.Metric(c.Metric)
	if m == nil {
		return nil, false
	}
	mod := spec.ModifiedOf(v)
	switch c.Rel {
	case "R1-explicit-copy": // Metric is an overridable base metric whose Modified is X
		mb, ok := mod[c.Metric]
		if !ok || a[mb] != "X" {
			return nil, false
		}
		a[mb] = a[c.Metric]
	case "R2-overridden-base": // Modified defined: the base value is irrelevant
		mb, ok := mod[c.Metric]
		if !ok || a[mb] == "X" || !m.HasValue(c.Val) || a[c.Metric] == c.Val {
			return nil, false
		}
		a[c.Metric] = c.Val
	case "R3-env-ignored": // v3: base/temporal ignore environmental (and base ignores temporal) metrics
		if v.Name == "4.0" || v.Name == "2.0" || m.Mandatory || !m.HasValue(c.Val) || a[c.Metric] == c.Val {
			return nil, false
		}
		a[c.Metric] = c.Val
	case "R4-default": // X <-> the specification's default written explicitly
		d, ok := spec.ScoreDefaults(v)[c.Metric]
		if v.Name == "2.0" {
			d, ok = map[string]string{"E": "H", "RL": "U", "RC": "C", "CR": "M", "IR": "M", "AR": "M", "TD": "H", "CDP": "N"}[c.Metric]
		}
		if !ok {
			return nil, false
		}
		switch a[c.Metric] {
		case v.ND:
			a[c.Metric] = d
		case d:
			a[c.Metric] = v.ND
		default:
			return nil, false
		}
	case "R5-supplemental":
		if v.Name != "4.0" || m.Group != "supp" || !m.HasValue(c.Val) || a[c.Metric] == c.Val {
			return nil, false
		}
		a[c.Metric] = c.Val
	default:
		return nil, false
	}
	return a, true
}

func checkMeta(c MetaCase) error {
	p := adapt.Pkgs[c.Ver]
	b, ok := c.transform()
	if !ok {
		return nil
	}
	o1, err := p.Build(c.A)
	if err != nil {
		return err
	}
	o2, err := p.Build(b)
	if err != nil {
		return err
	}
	var s1, s2 []float64
	if e := adapt.Safe(func() { s1, s2 = o1.Scores(), o2.Scores() }); e != nil {
		return fmt.Errorf("scoring %s / %s: %v", spec.Canon(p.V, c.A), spec.Canon(p.V, b), e)
	}
	for _, i := range metaInvariant(p.V, c.Rel, c.Metric) {
		if s1[i] != s2[i] || math.IsNaN(s1[i]) != math.IsNaN(s2[i]) {
			return fmt.Errorf("v%s %s [%s on %s]: %s = %v but %s = %v; both have the same effective values", p.V.Name, adapt.ScoreNames[p.V.Name][i], c.Rel, c.Metric, spec.Canon(p.V, c.A), s1[i], spec.Canon(p.V, b), s2[i])
		}
	}
	if c.Rel == "R5-supplemental" {
		if n1, n2 := o1.Nomenclature(), o2.Nomenclature(); n1 != n2 {
			return fmt.Errorf("v4.0 Nomenclature changes with supplemental metric %s: %q vs %q", c.Metric, n1, n2)
		}
	}
	return nil
}

var metaRels = []string{"R1-explicit-copy", "R2-overridden-base", "R3-env-ignored", "R4-default", "R5-supplemental"}

func impactsNone(v *spec.Version, a spec.Assignment) bool {
	var ks []string
	switch v.Name {
	case "4.0":
		ks = []string{"VC", "VI", "VA", "SC", "SI", "SA"}
	default:
		ks = []string{"C", "I", "A"}
	}
	for _, k := range ks {
		if a[k] != "N" {
			return false
		}
	}
	return true
}

// drawMeta draws an applicable relation instance on a generated object.
func drawMeta(rt *rapid.T) MetaCase {
	vi := rapid.IntRange(0, 3).Draw(rt, "ver")
	if vi == 0 && rapid.IntRange(0, 2).Draw(rt, "lessv2") > 0 {
		vi = rapid.IntRange(1, 3).Draw(rt, "ver2")
	}
	v := spec.Versions[vi]
	a, _ := gen.Object(rt, vi)
	c := MetaCase{Ver: vi, A: a}
	mod := spec.ModifiedOf(v)
	ovr := spec.OverridableOrder(v)
	var rels []string
	switch v.Name {
	case "2.0":
		rels = []string{"R4-default"}
	case "4.0":
		rels = []string{"R1-explicit-copy", "R2-overridden-base", "R4-default", "R5-supplemental"}
	default:
		rels = []string{"R1-explicit-copy", "R2-overridden-base", "R3-env-ignored", "R4-default"}
	}
	c.Rel = rels[rapid.IntRange(0, len(rels)-1).Draw(rt, "rel")]
	pickVal := func(m *spec.Metric, not string) string {
		var xs []string
		for _, x := range m.Vals {
			if x != not {
				xs = append(xs, x)
			}
		}
		return xs[rapid.IntRange(0, len(xs)-1).Draw(rt, "val")]
	}
	switch c.Rel {
	case "R1-explicit-copy":
		c.Metric = ovr[rapid.IntRange(0, len(ovr)-1).Draw(rt, "metric")]
		c.A[mod[c.Metric]] = "X" // make it applicable by construction
	case "R2-overridden-base":
		c.Metric = ovr[rapid.IntRange(0, len(ovr)-1).Draw(rt, "metric")]
		mb := v.Metric(mod[c.Metric])
		if c.A[mb.Abv] == "X" {
			c.A[mb.Abv] = pickVal(mb, "X")
		}
		c.Val = pickVal(v.Metric(c.Metric), c.A[c.Metric])
	case "R3-env-ignored":
		opt := v.Optional()
		m := opt[rapid.IntRange(0, len(opt)-1).Draw(rt, "metric")]
		c.Metric, c.Val = m.Abv, pickVal(&m, c.A[m.Abv])
	case "R4-default":
		ks := []string{"E", "RL", "RC", "CR", "IR", "AR"}
		if v.Name == "4.0" {
			ks = []string{"E", "CR", "IR", "AR"}
		}
		if v.Name == "2.0" {
			ks = []string{"E", "RL", "RC", "CR", "IR", "AR", "TD", "CDP"}
		}
		c.Metric = ks[rapid.IntRange(0, len(ks)-1).Draw(rt, "metric")]
		d := spec.ScoreDefaults(v)[c.Metric]
		if v.Name == "2.0" {
			d = map[string]string{"E": "H", "RL": "U", "RC": "C", "CR": "M", "IR": "M", "AR": "M", "TD": "H", "CDP": "N"}[c.Metric]
		}
		if rapid.Bool().Draw(rt, "fromX") {
			c.A[c.Metric] = v.ND
		} else {
			c.A[c.Metric] = d
		}
	case "R5-supplemental":
		var supp []spec.Metric
		for _, m := range v.Metrics {
			if m.Group == "supp" {
				supp = append(supp, m)
			}
		}
		m := supp[rapid.IntRange(0, len(supp)-1).Draw(rt, "metric")]
		c.Metric, c.Val = m.Abv, pickVal(&m, c.A[m.Abv])
	}
	return c
}

// metaGrid: exhaustive (metric x base value x modified value x other base value) on backgrounds.
func metaGrid(vi int, nbg int) []MetaCase {
	v := spec.Versions[vi]
	mod := spec.ModifiedOf(v)
	var out []MetaCase
	for bg := 0; bg < nbg; bg++ {
		for _, b := range spec.OverridableOrder(v) {
			bm, mm := v.Metric(b), v.Metric(mod[b])
			for _, bv := range bm.Vals {
				// R1: modified X, explicit copy
				a := background(v, bg)
				if bg%4 == 1 { // base impacts all None background
					for _, k := range []string{"C", "I", "A", "VC", "VI", "VA", "SC", "SI", "SA"} {
						if v.Has(k) {
							a[k] = "N"
						}
					}
				}
				if bg%4 == 2 { // no other Modified metric defined
					for _, x := range mod {
						a[x] = "X"
					}
				}
				a[b], a[mm.Abv] = bv, "X"
				out = append(out, MetaCase{Ver: vi, A: a.Clone(), Rel: "R1-explicit-copy", Metric: b})
				// R2: each modified value, each other base value
				for _, mv := range mm.Vals[1:] {
					for _, bv2 := range bm.Vals {
						if bv2 == bv {
							continue
						}
						a2 := a.Clone()
						a2[mm.Abv] = mv
						out = append(out, MetaCase{Ver: vi, A: a2, Rel: "R2-overridden-base", Metric: b, Val: bv2})
					}
				}
			}
		}
	}
	return out
}

func TestC10(t *testing.T) {
	h := start(t, "C10", "metamorphic pairs of objects with the same effective values: R1 Modified=X replaced by an explicit copy of the base value, R2 base metric changed while overridden, R3 (v3) base/temporal scores under changes of environmental/temporal metrics, R4 X replaced by the specification default (and back), R5 (v4) supplemental metrics changed; objects from corner profiles (uniform, all-first, all-last, base-impacts-None, effective-impacts-None, one-optional, all-Modified, no-Modified); plus the exhaustive grid metric x base value x modified value x other base value on 20 backgrounds; non-trivial = the first object scores > 0, or exactly one of the two has all base impacts None; distinct by (pair of vectors, relation)")
	grid := func() {
		for _, vi := range []int{1, 2, 3} {
			g := metaGrid(vi, 20)
			Enum(h, "meta", len(g), func(i int) MetaCase { return g[i] }, nil, checkMeta)
			if !h.replaying() {
				h.R.AddExact(int64(len(g)), int64(len(g)))
				h.R.Count("grid v"+spec.Versions[vi].Name+" (metric x base value x modified value x other base value x 20 backgrounds)", int64(len(g)))
				h.R.Sample("grid", g[len(g)/2])
			}
		}
	}
	if env.Shards <= 1 {
		grid()
	}
	n := env.Scale(150000, 300000)
	if env.Shards > 1 {
		n = env.Scale(150000, 1000000)
	}
	Rapid(h, "meta", n, func(rt *rapid.T) MetaCase {
		c := drawMeta(rt)
		v := spec.Versions[c.Ver]
		b, ok := c.transform()
		key := ""
		cl := fmt.Sprintf("v%s %s", v.Name, c.Rel)
		if ok {
			o, err := adapt.Pkgs[c.Ver].Build(c.A)
			pos := false
			if err == nil {
				adapt.Safe(func() {
					s := o.Scores()
					pos = s[len(s)-1] > 0
				})
			}
			corner := impactsNone(v, c.A) != impactsNone(v, b)
			if corner {
				cl += " one-side-base-impacts-None"
			}
			if pos || corner {
				key = cl + spec.Canon(v, c.A) + ">" + spec.Canon(v, b)
			}
		} else {
			cl += " (not applicable)"
		}
		h.R.Case(cl, key)
		if h.R.WantSample(cl) {
			h.R.Sample(cl, map[string]any{"from": spec.Canon(v, c.A), "to": spec.Canon(v, b), "metric": c.Metric})
		}
		return c
	}, checkMeta)
}

// ---------------------------------------------------------------- C11

func shapeOK(s float64, allowNegative bool) bool {
	k, ok := tenths(s)
	if !ok || k > 100 {
		return false
	}
	return k >= 0 || allowNegative
}

func checkScoreShape(c ScoreCase) error {
	p := adapt.Pkgs[c.Ver]
	o, err := p.Build(c.A)
	if err != nil {
		return err
	}
	var sc []float64
	if e := adapt.Safe(func() { sc = o.Scores() }); e != nil {
		return fmt.Errorf("v%s scoring %s: %v", p.V.Name, c.vec(), e)
	}
	for i, s := range sc {
		name := adapt.ScoreNames[p.V.Name][i]
		neg := p.V.Name == "2.0" && name == "EnvironmentalScore"
		if !shapeOK(s, neg) {
			return fmt.Errorf("v%s %s of %s = %.17g: not the float64 nearest to k/10 with 0 <= k <= 100", p.V.Name, name, c.vec(), s)
		}
		if p.Rating != nil {
			var r string
			var rerr error
			if e := adapt.Safe(func() { r, rerr = p.Rating(s) }); e != nil || rerr != nil || r == "" {
				return fmt.Errorf("v%s Rating(%s = %v) of %s: %q, %v, %v", p.V.Name, name, s, c.vec(), r, rerr, e)
			}
		}
	}
	return nil
}

// shapeOfObject applies the C11 predicate to an object as it is (no rebuild).
func shapeOfObject(p *adapt.Pkg, o adapt.Obj, ctx string) error {
	var sc []float64
	if e := adapt.Safe(func() { sc = o.Scores() }); e != nil {
		return fmt.Errorf("%s: v%s scoring object %s: %v", ctx, p.V.Name, o.State(), e)
	}
	for i, s := range sc {
		name := adapt.ScoreNames[p.V.Name][i]
		if !shapeOK(s, p.V.Name == "2.0" && name == "EnvironmentalScore") {
			return fmt.Errorf("%s: v%s %s = %.17g: not the float64 nearest to k/10 with 0 <= k <= 100 (object %s)", ctx, p.V.Name, name, s, o.State())
		}
		if p.Rating != nil {
			if r, err := p.Rating(s); err != nil || r == "" {
				return fmt.Errorf("%s: v%s Rating(%v) = %q, %v", ctx, p.V.Name, s, r, err)
			}
		}
	}
	return nil
}

// checkShapeHistory: the predicate after every step of an operation history
// (objects on which a metric has been Set several times are reachable too).
func checkShapeHistory(c gen.History) error {
	p := adapt.Pkgs[c.Ver]
	o, _, err := startObject(p, c.Start)
	if err == errSkip {
		return nil
	}
	if err != nil {
		return err
	}
	if err := shapeOfObject(p, o, "start"); err != nil {
		return err
	}
	for i, op := range c.Ops {
		o.Set(string(op.Abv), string(op.Val))
		if err := shapeOfObject(p, o, fmt.Sprintf("after step %d Set(%q,%q)", i, string(op.Abv), string(op.Val))); err != nil {
			return err
		}
	}
	return nil
}

func c11v2(h *H) {
	var bad int64 = -1
	var neg, positive, k100 int64
	perBase := v2Total / 729
	mv := spec.V2.Metrics
	parallelFor(729, func(b int) {
		defer func() {
			if r := recover(); r != nil {
				setMin(&bad, int64(b*perBase))
			}
		}()
		var o gocvss20.CVSS20
		x := b
		for i := 5; i >= 0; i-- {
			if o.Set(mv[i].Abv, mv[i].Vals[x%3]) != nil {
				panic("set")
			}
			x /= 3
		}
		idx := b * perBase
		var ln, lp, l100 int64
		for _, e := range mv[6].Vals {
			o.Set("E", e)
			for _, rl := range mv[7].Vals {
				o.Set("RL", rl)
				for _, rc := range mv[8].Vals {
					o.Set("RC", rc)
					bs, ts := o.BaseScore(), o.TemporalScore()
					okBT := shapeOK(bs, false) && shapeOK(ts, false)
					for _, cdp := range mv[9].Vals {
						o.Set("CDP", cdp)
						for _, td := range mv[10].Vals {
							o.Set("TD", td)
							for _, cr := range mv[11].Vals {
								o.Set("CR", cr)
								for _, ir := range mv[12].Vals {
									o.Set("IR", ir)
									for _, ar := range mv[13].Vals {
										o.Set("AR", ar)
										es := o.EnvironmentalScore()
										if !okBT || !shapeOK(es, true) {
											setMin(&bad, int64(idx))
										}
										if es < 0 {
											ln++
										}
										if es > 0 {
											lp++
										}
										if es == 10 {
											l100++
										}
										idx++
									}
								}
							}
						}
					}
				}
			}
		}
		atomic.AddInt64(&neg, ln)
		atomic.AddInt64(&positive, lp)
		atomic.AddInt64(&k100, l100)
	})
	h.R.AddExact(v2Total, positive)
	h.R.Count("v2.0 objects (all three scores each)", v2Total)
	h.R.Count("v2.0 environmental score negative (the stated exception)", neg)
	h.R.Count("v2.0 environmental score = 10.0", k100)
	if bad >= 0 {
		c := ScoreCase{Ver: 0, A: v2Decode(int(bad))}
		err := safely(checkScoreShape, c)
		if err == nil {
			walkDisagrees(h, "C11", 0, int(bad), fmt.Sprintf("v2 index %d", bad))
		}
		h.fail("score-shape", c, err)
	}
}

func setMin(p *int64, v int64) {
	for {
		cur := atomic.LoadInt64(p)
		if cur >= 0 && cur <= v {
			return
		}
		if atomic.CompareAndSwapInt64(p, cur, v) {
			return
		}
	}
}

func c11v3(h *H, ver int) {
	v := spec.Versions[ver]
	p := adapt.Pkgs[ver]
	var bad int64 = -1
	var positive, k100 int64
	vals := func(abv string) []string { return v.Metric(abv).Vals }
	parallelFor(2592, func(b int) {
		defer func() {
			if r := recover(); r != nil {
				setMin(&bad, int64(b*6400))
			}
		}()
		var o v3scorer
		if ver == 1 {
			o = &gocvss30.CVSS30{}
		} else {
			o = &gocvss31.CVSS31{}
		}
		c := v3ClassDecode(ver, b*6400)
		for _, k := range []string{"AV", "AC", "PR", "UI", "S", "C", "I", "A"} {
			if o.Set(k, c.A[k]) != nil {
				panic("set")
			}
		}
		idx := b * 6400
		var lp, l100 int64
		rate := func(s float64) bool { r, err := p.Rating(s); return err == nil && r != "" }
		for _, cr := range vals("CR") {
			o.Set("CR", cr)
			for _, ir := range vals("IR") {
				o.Set("IR", ir)
				for _, ar := range vals("AR") {
					o.Set("AR", ar)
					for _, e := range vals("E") {
						o.Set("E", e)
						for _, rl := range vals("RL") {
							o.Set("RL", rl)
							for _, rc := range vals("RC") {
								o.Set("RC", rc)
								bs, ts, es := o.BaseScore(), o.TemporalScore(), o.EnvironmentalScore()
								if !shapeOK(bs, false) || !shapeOK(ts, false) || !shapeOK(es, false) || !rate(bs) || !rate(ts) || !rate(es) {
									setMin(&bad, int64(idx))
								}
								if es > 0 {
									lp++
								}
								if es == 10 {
									l100++
								}
								idx++
							}
						}
					}
				}
			}
		}
		atomic.AddInt64(&positive, lp)
		atomic.AddInt64(&k100, l100)
	})
	h.R.AddExact(v3Classes, positive)
	h.R.Count("v"+v.Name+" classes (three scores + Rating each)", v3Classes)
	h.R.Count("v"+v.Name+" environmental score = 10.0", k100)
	if bad >= 0 {
		c := v3ClassDecode(ver, int(bad))
		err := safely(checkScoreShape, c)
		if err == nil {
			walkDisagrees(h, "C11", ver, int(bad), fmt.Sprintf("v%s index %d", v.Name, bad))
		}
		h.fail("score-shape", c, err)
	}
}

func c11v4(h *H) {
	imp := v4AllScores()
	var positive, k100 int64
	bad := -1
	for i, k := range imp {
		if k < 0 {
			bad = i
			break
		}
		if k > 0 {
			positive++
		}
		if k == 100 {
			k100++
		}
	}
	if bad < 0 {
		// Rating accepts each of the (at most 101) distinct values
		seen := map[int16]bool{}
		for i, k := range imp {
			if !seen[k] {
				seen[k] = true
				if r, err := adapt.P40.Rating(float64(k) / 10); err != nil || r == "" {
					bad = i
					break
				}
			}
		}
	}
	h.R.AddExact(int64(len(imp)), positive)
	h.R.Count("v4.0 effective classes (Score + Rating)", int64(len(imp)))
	h.R.Count("v4.0 score = 10.0", k100)
	if bad >= 0 {
		c := v4ClassCase(bad)
		err := safely(checkScoreShape, c)
		if err == nil {
			walkDisagrees(h, "C11", 3, bad, fmt.Sprintf("v4 class %d", bad))
		}
		h.fail("score-shape", c, err)
	}
}

func TestC11(t *testing.T) {
	h := start(t, "C11", "every scoring method evaluated on the complete class spaces (v2.0: all 139,968,000 assignments; v3.0 and v3.1: 16,588,800 effective classes each; v4.0: 15,116,544 effective classes) on rapid lifts into the raw spaces (corner profiles, Modified metrics, supplemental metrics), and after every Set step of operation histories (objects on which a metric has been set repeatedly); predicate: finite, bit-exact float64 nearest to k/10, 0 <= k <= 100 (v2.0 EnvironmentalScore: k <= 100 only), Rating accepts it; non-trivial = score > 0; enumerated classes distinct by construction, lifts by assignment")
	if h.replaying() && h.replay.Kind == "concurrent-classes" {
		doReplay(h, "concurrent-classes", runConcBatch)
		return
	}
	if h.replaying() && h.replay.Kind == "score-shape" {
		doReplay(h, "score-shape", checkScoreShape)
		return
	}
	if h.replaying() && h.replay.Kind == "history" {
		doReplay(h, "history", checkShapeHistory)
		return
	}
	if env.Shards <= 1 {
		if !env.Light {
			c11v2(h)
			c11v3(h, 1)
			c11v3(h, 2)
			c11v4(h)
		}
		for _, vi := range []int{1, 2, 3} {
			ws := newWindowSpace(vi, 6)
			Enum(h, "score-shape", ws.size(), func(i int) ScoreCase { return ScoreCase{Ver: vi, A: ws.assignment(i)} }, nil, checkScoreShape)
			h.R.AddExact(int64(ws.size()), int64(ws.size()))
			cs := newCornerSpace(vi)
			Enum(h, "score-shape", cs.size(), cs.decode, nil, checkScoreShape)
			h.R.AddExact(int64(cs.size()), int64(cs.size()))
			h.R.Count("v"+spec.Versions[vi].Name+" corners: every subset of the Modified metrics explicit at an extreme x requirement / temporal / threat spellings x 2 base backgrounds", int64(cs.size()))
		}
		h.R.SetExhaustive(!env.Light)
		for _, c := range []ScoreCase{{0, v2Decode(77777777)}, v3ClassDecode(1, 5555555), v3ClassDecode(2, 15000000), v4ClassCase(9000000)} {
			o, _ := adapt.Pkgs[c.Ver].Build(c.A)
			h.R.Sample("class", map[string]any{"version": spec.Versions[c.Ver].Name, "vector": c.vec(), "scores": o.Scores()})
		}
	}
	n := env.Scale(60000, 150000)
	if env.Shards > 1 {
		n = env.Scale(60000, 500000)
	}
	for vi := range spec.Versions {
		vi := vi
		Rapid(h, "history", env.Scale(6000, 20000), func(rt *rapid.T) gen.History {
			c := gen.Hist(rt, vi, 64)
			h.R.Case("history v"+spec.Versions[vi].Name+" (scores after every Set step)", "H"+histKey(c))
			return c
		}, checkShapeHistory)
	}
	Rapid(h, "score-shape", n, func(rt *rapid.T) ScoreCase {
		vi := gen.Version(rt)
		a, prof := gen.Object(rt, vi)
		c := ScoreCase{Ver: vi, A: a}
		key := ""
		if o, err := adapt.Pkgs[vi].Build(a); err == nil {
			adapt.Safe(func() {
				s := o.Scores()
				if s[len(s)-1] > 0 {
					key = fmt.Sprintf("%d%s", vi, c.vec())
				}
			})
		}
		h.R.Case(fmt.Sprintf("lift v%s profile=%s", spec.Versions[vi].Name, prof), key)
		return c
	}, checkScoreShape)
}

// ---------------------------------------------------------------- C12

// MonoCase: two assignments differing in one metric by one severity step.
type MonoCase struct {
	Ver    int               `json:"ver"`
	A      map[string]string `json:"less_severe"`
	Metric string            `json:"metric"`
	To     string            `json:"more_severe_value"`
	Scores []int             `json:"scores"` // indices of the score methods claimed monotone
}

func checkMono(c MonoCase) error {
	p := adapt.Pkgs[c.Ver]
	b := spec.Assignment(c.A).Clone()
	b[c.Metric] = c.To
	o1, err := p.Build(c.A)
	if err != nil {
		return err
	}
	o2, err := p.Build(b)
	if err != nil {
		return err
	}
	var s1, s2 []float64
	if e := adapt.Safe(func() { s1, s2 = o1.Scores(), o2.Scores() }); e != nil {
		return fmt.Errorf("scoring: %v", e)
	}
	for _, i := range c.Scores {
		if !(s2[i] >= s1[i]) {
			return fmt.Errorf("v%s %s decreases when %s becomes more severe (%s -> %s): %s = %v, %s = %v", p.V.Name, adapt.ScoreNames[p.V.Name][i], c.Metric, c.A[c.Metric], c.To, spec.Canon(p.V, c.A), s1[i], spec.Canon(p.V, b), s2[i])
		}
	}
	return nil
}

type dim struct {
	Name string
	Vals []string // ascending severity
}

// graph describes a class space with severity-ordered dimensions.
type graph struct {
	ver       int
	label     string
	dims      []dim
	fixed     map[string]string // metrics not in dims
	fixedKeys []string
	scores    []int
	assign    func(g *graph, digits []int) spec.Assignment
}

// fixedOrder: the fixed metrics in a stable order.
func (g *graph) fixedOrder() []string {
	if g.fixedKeys == nil && len(g.fixed) > 0 {
		for _, m := range spec.Versions[g.ver].Metrics {
			if _, ok := g.fixed[m.Abv]; ok {
				g.fixedKeys = append(g.fixedKeys, m.Abv)
			}
		}
	}
	return g.fixedKeys
}

// severity chains (ascending) of the metrics a Modified metric can override
var sevV3 = map[string][]string{"AV": {"P", "L", "A", "N"}, "AC": {"H", "L"}, "PR": {"H", "L", "N"}, "UI": {"R", "N"}, "S": {"U", "C"},
	"C": {"N", "L", "H"}, "I": {"N", "L", "H"}, "A": {"N", "L", "H"}}
var sevV4 = map[string][]string{"AV": {"P", "L", "A", "N"}, "AC": {"H", "L"}, "AT": {"P", "N"}, "PR": {"H", "L", "N"}, "UI": {"A", "P", "N"},
	"VC": {"N", "L", "H"}, "VI": {"N", "L", "H"}, "VA": {"N", "L", "H"}, "SC": {"N", "L", "H"}, "SI": {"N", "L", "H", "S"}, "SA": {"N", "L", "H", "S"}}

// modifiedGraph: the complete space of the Modified metrics over one fixed base combination. Every
// Modified metric ranges over all its values and X; X stands in the chain next to the base value it
// falls back to. The neighbour pairs therefore include every step expressed by defining a Modified
// metric on one side only (mixed carriers), for every subset of the other Modified metrics defined.
func modifiedGraph(vi int, bg int, extra []dim, scores []int) *graph {
	v := spec.Versions[vi]
	sev := sevV3
	if vi == 3 {
		sev = sevV4
	}
	full := background(v, bg)
	g := &graph{ver: vi, fixed: map[string]string{}, scores: scores, assign: defaultAssign}
	mod := spec.ModifiedOf(v)
	vec := ""
	for _, m := range v.Metrics {
		if !m.Mandatory {
			continue
		}
		b := full[m.Abv]
		g.fixed[m.Abv] = b
		vec += "/" + m.Abv + ":" + b
		var chain []string
		for _, x := range sev[m.Abv] {
			chain = append(chain, x)
			if x == b {
				chain = append(chain, "X")
			}
		}
		g.dims = append(g.dims, dim{mod[m.Abv], chain})
	}
	g.dims = append(g.dims, extra...)
	g.label = fmt.Sprintf("v%s Modified metrics (every value and X) over the fixed base %s", v.Name, vec[1:])
	return g
}

func (g *graph) size() int {
	n := 1
	for _, d := range g.dims {
		n *= len(d.Vals)
	}
	return n
}

func (g *graph) digits(idx int) []int {
	d := make([]int, len(g.dims))
	for i := len(g.dims) - 1; i >= 0; i-- {
		n := len(g.dims[i].Vals)
		d[i] = idx % n
		idx /= n
	}
	return d
}

func defaultAssign(g *graph, digits []int) spec.Assignment {
	v := spec.Versions[g.ver]
	a := spec.Assignment{}
	for _, m := range v.Metrics {
		if !m.Mandatory {
			a[m.Abv] = v.ND
		}
	}
	for k, val := range g.fixed {
		a[k] = val
	}
	for i, d := range g.dims {
		val := d.Vals[digits[i]]
		if v.Name == "4.0" && (d.Name == "SI" || d.Name == "SA") && val == "S" {
			a[d.Name], a["M"+d.Name] = "N", "S"
		} else {
			a[d.Name] = val
		}
	}
	return a
}

var v2Dims = []dim{{"AV", []string{"L", "A", "N"}}, {"AC", []string{"H", "M", "L"}}, {"Au", []string{"M", "S", "N"}},
	{"C", []string{"N", "P", "C"}}, {"I", []string{"N", "P", "C"}}, {"A", []string{"N", "P", "C"}},
	// ND scores as the most severe value: it is the top of each temporal chain (equal to its predecessor)
	{"E", []string{"U", "POC", "F", "H", "ND"}}, {"RL", []string{"OF", "TF", "W", "U", "ND"}}, {"RC", []string{"UC", "UR", "C", "ND"}}}

var v3BaseTempDims = []dim{{"AV", []string{"P", "L", "A", "N"}}, {"AC", []string{"H", "L"}}, {"PR", []string{"H", "L", "N"}}, {"UI", []string{"R", "N"}},
	{"S", []string{"U", "C"}}, {"C", []string{"N", "L", "H"}}, {"I", []string{"N", "L", "H"}}, {"A", []string{"N", "L", "H"}},
	// X scores as the most severe value (H / U / C): top of the chain, equal to its predecessor
	{"E", []string{"U", "P", "F", "H", "X"}}, {"RL", []string{"O", "T", "W", "U", "X"}}, {"RC", []string{"U", "R", "C", "X"}}}

// an undefined requirement scores as Medium: X sits next to M in the chain
var v3ReqDims = []dim{{"CR", []string{"L", "M", "X", "H"}}, {"IR", []string{"L", "M", "X", "H"}}, {"AR", []string{"L", "M", "X", "H"}}}

// v4 graph dimensions: the 15 effective metrics plus the undefined value of E (scores as A)
// and of CR/IR/AR (score as H) at the top of their chains.
func v4GraphDims() []dim {
	var ds []dim
	for _, d := range spec.V4Dims {
		vals := append([]string{}, d.Vals...)
		switch d.Name {
		case "E", "CR", "IR", "AR":
			vals = append(vals, "X")
		}
		ds = append(ds, dim{d.Name, vals})
	}
	return ds
}

// runGraph evaluates every class, then checks every neighbour pair.
func runGraph(h *H, g *graph) {
	g.fixedOrder() // computed before the workers start
	n := g.size()
	p := adapt.Pkgs[g.ver]
	ns := len(g.scores)
	vals := make([]float32, n*ns) // scores are one-decimal numbers <= 10: float32 keeps their order (NaN stays NaN)
	var evalBad int64 = -1
	const chunk = 2048
	parallelFor((n+chunk-1)/chunk, func(ci int) {
		for i := ci * chunk; i < (ci+1)*chunk && i < n; i++ {
			func() {
				defer func() {
					if r := recover(); r != nil {
						setMin(&evalBad, int64(i))
					}
				}()
				var sc []float64
				if g.ver == 3 {
					var o gocvss40.CVSS40
					for _, name := range g.fixedOrder() {
						if err := o.Set(name, g.fixed[name]); err != nil {
							panic(err)
						}
					}
					for k, dg := range g.digits(i) {
						name, val := g.dims[k].Name, g.dims[k].Vals[dg]
						var err error
						if (name == "SI" || name == "SA") && val == "S" {
							if err = o.Set(name, "N"); err == nil {
								err = o.Set("M"+name, "S")
							}
						} else {
							err = o.Set(name, val)
						}
						if err != nil {
							panic(err)
						}
					}
					sc = []float64{o.Score()}
				} else {
					o, err := p.Build(g.assign(g, g.digits(i)))
					if err != nil {
						panic(err)
					}
					sc = o.Scores()
				}
				for k, si := range g.scores {
					vals[i*ns+k] = float32(sc[si])
				}
			}()
		}
	})
	strides := make([]int, len(g.dims))
	s := 1
	for i := len(g.dims) - 1; i >= 0; i-- {
		strides[i] = s
		s *= len(g.dims[i].Vals)
	}
	type viol struct{ i, m int }
	var first int64 = -1
	var firstDim int64
	var pairs, strict int64
	parallelFor((n+chunk-1)/chunk, func(ci int) {
		var lp, ls int64
		for i := ci * chunk; i < (ci+1)*chunk && i < n; i++ {
			d := g.digits(i)
			for m := range g.dims {
				if d[m]+1 >= len(g.dims[m].Vals) {
					continue
				}
				j := i + strides[m]
				lp++
				diff := false
				for k := 0; k < ns; k++ {
					a, b := vals[i*ns+k], vals[j*ns+k]
					if !(b >= a) {
						if atomic.LoadInt64(&first) < 0 || int64(i) < atomic.LoadInt64(&first) {
							setMin(&first, int64(i))
							if atomic.LoadInt64(&first) == int64(i) {
								atomic.StoreInt64(&firstDim, int64(m))
							}
						}
					}
					if b != a {
						diff = true
					}
				}
				if diff {
					ls++
				}
			}
		}
		atomic.AddInt64(&pairs, lp)
		atomic.AddInt64(&strict, ls)
	})
	h.R.AddExact(pairs, strict)
	h.R.Count(g.label+": classes", int64(n))
	h.R.Count(g.label+": neighbour pairs", pairs)
	h.R.Count(g.label+": pairs whose scores differ (strict steps)", strict)
	mk := func(i, m int) MonoCase {
		d := g.digits(i)
		a := g.assign(g, d)
		name := g.dims[m].Name
		to := g.dims[m].Vals[d[m]+1]
		c := MonoCase{Ver: g.ver, A: a, Metric: name, To: to, Scores: g.scores}
		if g.ver == 3 && (name == "SI" || name == "SA") {
			// the 4-level order N<L<H<S: S is carried by the Modified metric
			if to == "S" {
				c.A = a.Clone()
				c.Metric, c.To = "M"+name, "S"
			}
		}
		return c
	}
	h.R.Sample(g.label, mk(n/3, 0))
	if evalBad >= 0 {
		c := mk(int(evalBad), 0)
		h.fail("mono", c, fmt.Errorf("scoring class %d of %s panicked or could not be built: %s", evalBad, g.label, spec.Canon(spec.Versions[g.ver], c.A)))
	}
	if first >= 0 {
		// find the violating dimension deterministically
		i := int(first)
		d := g.digits(i)
		for m := range g.dims {
			if d[m]+1 >= len(g.dims[m].Vals) {
				continue
			}
			c := mk(i, m)
			if err := safely(checkMono, c); err != nil {
				h.fail("mono", c, err)
			}
		}
		h.t.Fatalf("HARNESS-ERROR C12 %s: class %d flagged but no single pair fails", g.label, i)
	}
}

func TestC12(t *testing.T) {
	h := start(t, "C12", "complete neighbour graphs, with the undefined value (ND / X) of every defaulting metric included as an extra level next to the value it scores as: v2.0 base+temporal (72,900 classes), v3.0 base+temporal (259,200), v3.1 base+temporal+environmental (16,588,800 classes over the 8 effective metrics, CR/IR/AR and E/RL/RC), v4.0 (47,775,744 classes x 15 metrics, SI/SA with the 4-level order N<L<H<S); every pair of classes that differ in one metric by one severity step must satisfy score(more severe) >= score(less severe); non-trivial = pairs whose scores differ; pairs are distinct by construction")
	h.R.Assume("severity orders from the specifications: AV P<L<A<N (v2: L<A<N), AC H<L (v2: H<M<L), AT P<N, PR H<L<N, Au M<S<N, UI R<N (v4: A<P<N), S U<C, impacts N<L<H (v2: N<P<C; v4 SI/SA: N<L<H<S), E U<P<F<H (v2: U<POC<F<H; v4: U<P<A), RL O<T<W<U (v2: OF<TF<W<U), RC U<R<C (v2: UC<UR<C), requirements L<M<H; ND/X placed where it scores: at the top for E/RL/RC (and v4 CR/IR/AR), next to M for v3 CR/IR/AR")
	h.R.Assume("v2.0 and v3.0 environmental scores are outside the statement (they are genuinely non-monotone) and are not checked")
	if doReplay(h, "mono", checkMono) {
		return
	}
	graphs := []*graph{
		{ver: 0, label: "v2.0 base+temporal", dims: v2Dims, scores: []int{0, 1}, assign: defaultAssign},
		{ver: 1, label: "v3.0 base+temporal", dims: v3BaseTempDims, scores: []int{0, 1}, assign: defaultAssign},
		{ver: 2, label: "v3.1 base+temporal+environmental", dims: append(append([]dim{}, v3BaseTempDims...), v3ReqDims...), scores: []int{0, 1, 2}, assign: defaultAssign},
		{ver: 3, label: "v4.0", dims: v4GraphDims(), scores: []int{0}, assign: defaultAssign},
	}
	if env.Light {
		// the 32-bit process: the two small graphs, v3.1 base+temporal, and the Modified spaces below
		graphs = graphs[:2]
		graphs = append(graphs, &graph{ver: 2, label: "v3.1 base+temporal", dims: v3BaseTempDims, scores: []int{0, 1}, assign: defaultAssign})
	}
	for _, g := range graphs {
		runGraph(h, g)
	}
	h.R.SetExhaustive(!env.Light)
	// Modified-metric route for v3.1 environmental monotonicity: the same graph with the
	// effective values carried by the Modified metrics over a fixed base.
	gm := &graph{ver: 2, label: "v3.1 environmental via Modified metrics (base fixed)", scores: []int{2},
		dims: []dim{{"MAV", []string{"P", "L", "A", "N"}}, {"MAC", []string{"H", "L"}}, {"MPR", []string{"H", "L", "N"}}, {"MUI", []string{"R", "N"}},
			{"MS", []string{"U", "C"}}, {"MC", []string{"N", "L", "H"}}, {"MI", []string{"N", "L", "H"}}, {"MA", []string{"N", "L", "H"}},
			{"CR", []string{"L", "M", "H"}}, {"IR", []string{"L", "M", "H"}}, {"AR", []string{"L", "M", "H"}}, {"E", []string{"U", "P", "F", "H"}}},
		fixed:  map[string]string{"AV": "L", "AC": "H", "PR": "L", "UI": "R", "S": "U", "C": "L", "I": "N", "A": "H"},
		assign: defaultAssign}
	if !env.Light {
		runGraph(h, gm)
	}
	// mixed carriers: the complete Modified space (every value and X of every Modified metric) over fixed
	// base combinations - the first and the last value of every base metric, mixed ones, and more
	// that rotate with the seed
	nbg := env.Scale(3, 40)
	for k := 0; k < nbg; k++ {
		bg := k
		if k >= 2 {
			bg = 2 + (int(env.Seed%1000)*nbg+k)%5000
		}
		runGraph(h, modifiedGraph(3, bg, nil, []int{0}))
		runGraph(h, modifiedGraph(2, bg, []dim{{"CR", []string{"L", "M", "X", "H"}}, {"IR", []string{"L", "M", "H"}}, {"AR", []string{"L", "M", "H"}}, {"E", []string{"U", "H", "X"}}}, []int{2}))
	}
}
