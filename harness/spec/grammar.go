package spec

import (
	"regexp"
	"strings"
)

// Parse is the reference recogniser: it reports whether s is a well-formed
// vector of version v (the grammar of property C01) and, if so, the metric
// assignment it denotes (omitted optional metrics hold ND / X).
//
// It is a split-based recogniser written from the grammar text:
//   - v2.0: no header; exactly the base group, optionally followed by the whole
//     temporal group, optionally followed by the whole environmental group;
//   - v3.x: exact header, '/'-separated metric:value pairs in any order, no
//     repeat, all base metrics present;
//   - v4.0: "CVSS:4.0", the 11 base metrics in order, then any subset of the
//     optional metrics in specification order.
func Parse(v *Version, s string) (Assignment, bool) {
	switch v.Name {
	case "2.0":
		return parseV2(v, s)
	case "3.0", "3.1":
		return parseV3(v, s)
	case "4.0":
		return parseV4(v, s)
	}
	return nil, false
}

// Member reports membership only.
func Member(v *Version, s string) bool { _, ok := Parse(v, s); return ok }

func blank(v *Version) Assignment {
	a := Assignment{}
	for i := range v.Metrics {
		m := &v.Metrics[i]
		if !m.Mandatory {
			a[m.Abv] = v.ND
		}
	}
	return a
}

func element(el string) (abv, val string, ok bool) {
	i := strings.IndexByte(el, ':')
	if i < 0 {
		return "", "", false
	}
	return el[:i], el[i+1:], true
}

func parseV2(v *Version, s string) (Assignment, bool) {
	els := strings.Split(s, "/")
	var want []int
	seq := func(from, to int) {
		for i := from; i < to; i++ {
			want = append(want, i)
		}
	}
	switch len(els) {
	case 6:
		seq(0, 6)
	case 9:
		seq(0, 9)
	case 11:
		seq(0, 6)
		seq(9, 14)
	case 14:
		seq(0, 14)
	default:
		return nil, false
	}
	a := blank(v)
	for k, el := range els {
		abv, val, ok := element(el)
		m := &v.Metrics[want[k]]
		if !ok || abv != m.Abv || !m.HasValue(val) {
			return nil, false
		}
		a[abv] = val
	}
	return a, true
}

func parseV3(v *Version, s string) (Assignment, bool) {
	if !strings.HasPrefix(s, v.Header) {
		return nil, false
	}
	a := blank(v)
	seen := map[string]bool{}
	for _, el := range strings.Split(s[len(v.Header):], "/") {
		abv, val, ok := element(el)
		if !ok {
			return nil, false
		}
		m := v.Metric(abv)
		if m == nil || seen[abv] || !m.HasValue(val) {
			return nil, false
		}
		seen[abv] = true
		a[abv] = val
	}
	for i := range v.Metrics {
		if v.Metrics[i].Mandatory && !seen[v.Metrics[i].Abv] {
			return nil, false
		}
	}
	return a, true
}

func parseV4(v *Version, s string) (Assignment, bool) {
	if !strings.HasPrefix(s, v.Header) { // "CVSS:4.0/"
		return nil, false
	}
	els := strings.Split(s[len(v.Header):], "/")
	if len(els) < 11 {
		return nil, false
	}
	a := blank(v)
	next := 0 // index of the first metric still allowed
	for _, el := range els {
		abv, val, ok := element(el)
		if !ok {
			return nil, false
		}
		i := v.Index(abv)
		if i < 0 || i < next {
			return nil, false // unknown, repeated or out of order
		}
		if next < 11 && i != next {
			return nil, false // base metrics cannot be skipped
		}
		if !v.Metrics[i].HasValue(val) {
			return nil, false
		}
		a[abv] = val
		next = i + 1
	}
	if next < 11 {
		return nil, false
	}
	return a, true
}

// Second, structurally different, recognisers for v2.0 and v4.0 (anchored
// regular expressions transcribed from the grammar in C01's quantifier); the
// self-tests require both to agree on every generated string.
var ReV2 = regexp.MustCompile(`\AAV:(L|A|N)/AC:(L|M|H)/Au:(M|S|N)/C:(N|P|C)/I:(N|P|C)/A:(N|P|C)(/E:(ND|U|POC|F|H)/RL:(ND|OF|TF|W|U)/RC:(ND|UC|UR|C))?(/CDP:(ND|N|L|LM|MH|H)/TD:(ND|N|L|M|H)/CR:(ND|L|M|H)/IR:(ND|L|M|H)/AR:(ND|L|M|H))?\z`)

var ReV4 = regexp.MustCompile(`\ACVSS:4\.0/AV:[NALP]/AC:[LH]/AT:[NP]/PR:[NLH]/UI:[NPA]/VC:[HLN]/VI:[HLN]/VA:[HLN]/SC:[HLN]/SI:[HLN]/SA:[HLN](/E:[XAPU])?(/CR:[XHML])?(/IR:[XHML])?(/AR:[XHML])?(/MAV:[XNALP])?(/MAC:[XLH])?(/MAT:[XNP])?(/MPR:[XNLH])?(/MUI:[XNPA])?(/MVC:[XHLN])?(/MVI:[XHLN])?(/MVA:[XHLN])?(/MSC:[XHLN])?(/MSI:[XHLNS])?(/MSA:[XHLNS])?(/S:[XNP])?(/AU:[XNY])?(/R:[XAUI])?(/V:[XDC])?(/RE:[XLMH])?(/U:(X|Clear|Green|Amber|Red))?\z`)

var reV3body = regexp.MustCompile(`\A(AV:[NALP]|AC:[LH]|PR:[NLH]|UI:[NR]|S:[UC]|C:[HLN]|I:[HLN]|A:[HLN]|E:[XHFPU]|RL:[XUWTO]|RC:[XCRU]|CR:[XHML]|IR:[XHML]|AR:[XHML]|MAV:[XNALP]|MAC:[XLH]|MPR:[XNLH]|MUI:[XNR]|MS:[XUC]|MC:[XHLN]|MI:[XHLN]|MA:[XHLN])(/(AV:[NALP]|AC:[LH]|PR:[NLH]|UI:[NR]|S:[UC]|C:[HLN]|I:[HLN]|A:[HLN]|E:[XHFPU]|RL:[XUWTO]|RC:[XCRU]|CR:[XHML]|IR:[XHML]|AR:[XHML]|MAV:[XNALP]|MAC:[XLH]|MPR:[XNLH]|MUI:[XNR]|MS:[XUC]|MC:[XHLN]|MI:[XHLN]|MA:[XHLN]))*\z`)

// MemberAlt is the second opinion: regular expressions (plus, for v3, a count
// of abbreviations, which a regular expression cannot express compactly).
func MemberAlt(v *Version, s string) bool {
	switch v.Name {
	case "2.0":
		return ReV2.MatchString(s)
	case "4.0":
		return ReV4.MatchString(s)
	}
	if !strings.HasPrefix(s, v.Header) {
		return false
	}
	body := s[len(v.Header):]
	if !reV3body.MatchString(body) {
		return false
	}
	cnt := map[string]int{}
	for _, el := range strings.Split(body, "/") {
		cnt[el[:strings.IndexByte(el, ':')]]++
	}
	for _, n := range cnt {
		if n > 1 {
			return false
		}
	}
	for _, b := range []string{"AV", "AC", "PR", "UI", "S", "C", "I", "A"} {
		if cnt[b] != 1 {
			return false
		}
	}
	return true
}

// Canon returns the canonical spelling of an assignment (property C08):
// specification order; v3/v4 omit X-valued optional metrics; v2 writes the base
// group, then the temporal group iff any member is not ND, then the
// environmental group iff any member is not ND, each group in full.
func Canon(v *Version, a Assignment) string {
	var parts []string
	if v.Name == "2.0" {
		grp := func(from, to int, always bool) {
			any := always
			for _, m := range v.Metrics[from:to] {
				if a[m.Abv] != "ND" {
					any = true
				}
			}
			if any {
				for _, m := range v.Metrics[from:to] {
					parts = append(parts, m.Abv+":"+a[m.Abv])
				}
			}
		}
		grp(0, 6, true)
		grp(6, 9, false)
		grp(9, 14, false)
		return strings.Join(parts, "/")
	}
	for _, m := range v.Metrics {
		if !m.Mandatory && a[m.Abv] == "X" {
			continue
		}
		parts = append(parts, m.Abv+":"+a[m.Abv])
	}
	return v.Header + strings.Join(parts, "/")
}

// Spell writes an assignment as a vector with explicit control over what is
// written: elems lists the abbreviations to write, in the order to write them.
func Spell(v *Version, a Assignment, elems []string) string {
	parts := make([]string, 0, len(elems))
	for _, abv := range elems {
		parts = append(parts, abv+":"+a[abv])
	}
	return v.Header + strings.Join(parts, "/")
}
