package spec

import (
	"math/big"
	"sort"
	"sync"
)

// Exact oracle for CVSS v2.0 (guide section 3.2). round_to_1_decimal is "the
// nearest tenth"; on an exact half-way value the guide is silent, so BOTH
// neighbours conform and the oracle returns the SET of conforming results.
// Ties propagate through the nested roundings of the environmental equation.

var w2AV = map[string]string{"L": "0.395", "A": "0.646", "N": "1.0"}
var w2AC = map[string]string{"H": "0.35", "M": "0.61", "L": "0.71"}
var w2Au = map[string]string{"M": "0.45", "S": "0.56", "N": "0.704"}
var w2CIA = map[string]string{"N": "0", "P": "0.275", "C": "0.660"}
var w2E = map[string]string{"ND": "1", "U": "0.85", "POC": "0.9", "F": "0.95", "H": "1"}
var w2RL = map[string]string{"ND": "1", "OF": "0.87", "TF": "0.9", "W": "0.95", "U": "1"}
var w2RC = map[string]string{"ND": "1", "UC": "0.9", "UR": "0.95", "C": "1"}
var w2CDP = map[string]string{"ND": "0", "N": "0", "L": "0.1", "LM": "0.3", "MH": "0.4", "H": "0.5"}
var w2TD = map[string]string{"ND": "1", "N": "0", "L": "0.25", "M": "0.75", "H": "1"}
var w2Req = map[string]string{"ND": "1", "L": "0.5", "M": "1", "H": "1.51"}

// RoundNearestTenths returns the conforming one-decimal roundings of x in tenths
// (one value, or two on an exact half-way value).
func RoundNearestTenths(x *big.Rat) []int {
	t := rmul(x, rat("10"))
	fl, m := new(big.Int).DivMod(t.Num(), t.Denom(), new(big.Int)) // Euclidean: m >= 0, fl = floor
	frac := new(big.Rat).SetFrac(m, t.Denom())
	c := frac.Cmp(rat("1/2"))
	f := int(fl.Int64())
	switch {
	case c < 0:
		return []int{f}
	case c > 0:
		return []int{f + 1}
	}
	return []int{f, f + 1}
}

func uniqInts(a []int) []int {
	if len(a) < 2 {
		return a
	}
	s := append([]int(nil), a...)
	sort.Ints(s)
	o := s[:1]
	for _, x := range s[1:] {
		if x != o[len(o)-1] {
			o = append(o, x)
		}
	}
	return o
}

type V2Oracle struct {
	mu   sync.Mutex
	base map[string][]int // av ac au c i a cr ir ar  (adjusted base; cr=ir=ar="-" for plain base)
	adjC map[string]bool  // AdjustedImpact capped at 10
	tmp  [116][5][5][4][]int // k+10, e, rl, rc
	env  [116][6][5][]int    // t+10, cdp, td
	imp  map[string]*big.Rat
	exp  map[string]*big.Rat
}

var v2Es = []string{"ND", "U", "POC", "F", "H"}
var v2RLs = []string{"ND", "OF", "TF", "W", "U"}
var v2RCs = []string{"ND", "UC", "UR", "C"}
var v2CDPs = []string{"ND", "N", "L", "LM", "MH", "H"}
var v2TDs = []string{"ND", "N", "L", "M", "H"}

func idxOf(xs []string, v string) int {
	for i, x := range xs {
		if x == v {
			return i
		}
	}
	panic("idxOf " + v)
}

func NewV2Oracle() *V2Oracle {
	o := &V2Oracle{base: map[string][]int{}, adjC: map[string]bool{}, imp: map[string]*big.Rat{}, exp: map[string]*big.Rat{}}
	for k := -10; k <= 105; k++ {
		for ei, e := range v2Es {
			for ri, rl := range v2RLs {
				for ci, rc := range v2RCs {
					o.tmp[k+10][ei][ri][ci] = RoundNearestTenths(rmul(big.NewRat(int64(k), 10), rat(w2E[e]), rat(w2RL[rl]), rat(w2RC[rc])))
				}
			}
		}
		for ci, c := range v2CDPs {
			for di, d := range v2TDs {
				at := big.NewRat(int64(k), 10)
				o.env[k+10][ci][di] = RoundNearestTenths(rmul(radd(at, rmul(rsub(rat("10"), at), rat(w2CDP[c]))), rat(w2TD[d])))
			}
		}
	}
	return o
}

func (o *V2Oracle) Exploitability(av, ac, au string) *big.Rat {
	k := av + ac + au
	o.mu.Lock()
	defer o.mu.Unlock()
	if r, ok := o.exp[k]; ok {
		return r
	}
	r := rmul(rat("20"), rat(w2AV[av]), rat(w2AC[ac]), rat(w2Au[au]))
	o.exp[k] = r
	return r
}

func (o *V2Oracle) Impact(c, i, a string) *big.Rat {
	k := c + i + a
	o.mu.Lock()
	defer o.mu.Unlock()
	if r, ok := o.imp[k]; ok {
		return r
	}
	r := rmul(rat("10.41"), rsub(rat("1"), rmul(rsub(rat("1"), rat(w2CIA[c])), rsub(rat("1"), rat(w2CIA[i])), rsub(rat("1"), rat(w2CIA[a])))))
	o.imp[k] = r
	return r
}

func baseFrom2(impact, expl *big.Rat) []int {
	f := rat("1.176")
	if impact.Sign() == 0 {
		f = rat("0")
	}
	return RoundNearestTenths(rmul(rsub(radd(rmul(rat("0.6"), impact), rmul(rat("0.4"), expl)), rat("1.5")), f))
}

// BaseSet returns the conforming base scores in tenths.
func (o *V2Oracle) BaseSet(av, ac, au, c, i, a string) []int {
	k := av + "/" + ac + "/" + au + "/" + c + i + a + "---"
	o.mu.Lock()
	if r, ok := o.base[k]; ok {
		o.mu.Unlock()
		return r
	}
	o.mu.Unlock()
	r := baseFrom2(o.Impact(c, i, a), o.Exploitability(av, ac, au))
	o.mu.Lock()
	o.base[k] = r
	o.mu.Unlock()
	return r
}

// AdjustedBaseSet: the base equation with AdjustedImpact; capped reports min(10,.) biting.
func (o *V2Oracle) AdjustedBaseSet(av, ac, au, c, i, a, cr, ir, ar string) ([]int, bool) {
	k := av + "/" + ac + "/" + au + "/" + c + i + a + "/" + cr + "/" + ir + "/" + ar
	o.mu.Lock()
	if r, ok := o.base[k]; ok {
		cp := o.adjC[k]
		o.mu.Unlock()
		return r, cp
	}
	o.mu.Unlock()
	ai := rmul(rat("10.41"), rsub(rat("1"), rmul(
		rsub(rat("1"), rmul(rat(w2CIA[c]), rat(w2Req[cr]))),
		rsub(rat("1"), rmul(rat(w2CIA[i]), rat(w2Req[ir]))),
		rsub(rat("1"), rmul(rat(w2CIA[a]), rat(w2Req[ar]))))))
	capped := ai.Cmp(rat("10")) > 0
	if capped {
		ai = rat("10")
	}
	r := baseFrom2(ai, o.Exploitability(av, ac, au))
	o.mu.Lock()
	o.base[k] = r
	o.adjC[k] = capped
	o.mu.Unlock()
	return r, capped
}

// TemporalSet applies the temporal equation to each conforming input.
func (o *V2Oracle) TemporalSet(in []int, e, rl, rc string) []int {
	ei, ri, ci := idxOf(v2Es, e), idxOf(v2RLs, rl), idxOf(v2RCs, rc)
	if len(in) == 1 {
		return o.tmp[in[0]+10][ei][ri][ci]
	}
	var out []int
	for _, k := range in {
		out = append(out, o.tmp[k+10][ei][ri][ci]...)
	}
	return uniqInts(out)
}

// EnvSet applies the final environmental equation to each conforming AdjustedTemporal.
func (o *V2Oracle) EnvSet(in []int, cdp, td string) []int {
	ci, di := idxOf(v2CDPs, cdp), idxOf(v2TDs, td)
	if len(in) == 1 {
		return o.env[in[0]+10][ci][di]
	}
	var out []int
	for _, t := range in {
		out = append(out, o.env[t+10][ci][di]...)
	}
	return uniqInts(out)
}

type V2Result struct {
	Base, Temporal, Env []int // conforming values in tenths
	Impact, Expl        float64
	AdjCapped           bool
}

func (o *V2Oracle) Score(a Assignment) V2Result {
	var r V2Result
	r.Base = o.BaseSet(a["AV"], a["AC"], a["Au"], a["C"], a["I"], a["A"])
	r.Temporal = o.TemporalSet(r.Base, a["E"], a["RL"], a["RC"])
	adj, capped := o.AdjustedBaseSet(a["AV"], a["AC"], a["Au"], a["C"], a["I"], a["A"], a["CR"], a["IR"], a["AR"])
	r.AdjCapped = capped
	r.Env = o.EnvSet(o.TemporalSet(adj, a["E"], a["RL"], a["RC"]), a["CDP"], a["TD"])
	r.Impact, _ = o.Impact(a["C"], a["I"], a["A"]).Float64()
	r.Expl, _ = o.Exploitability(a["AV"], a["AC"], a["Au"]).Float64()
	return r
}

func InSet(set []int, k int) bool {
	for _, x := range set {
		if x == k {
			return true
		}
	}
	return false
}

// TemporalSetIdx / EnvSetIdx are the index-addressed forms used by the complete
// enumeration (indices into V2.Metrics[..].Vals order: E, RL, RC, CDP, TD).
func (o *V2Oracle) TemporalSetIdx(in []int, ei, ri, ci int) []int {
	if len(in) == 1 {
		return o.tmp[in[0]+10][ei][ri][ci]
	}
	var out []int
	for _, k := range in {
		out = append(out, o.tmp[k+10][ei][ri][ci]...)
	}
	return uniqInts(out)
}

func (o *V2Oracle) EnvSetIdx(in []int, ci, di int) []int {
	if len(in) == 1 {
		return o.env[in[0]+10][ci][di]
	}
	var out []int
	for _, t := range in {
		out = append(out, o.env[t+10][ci][di]...)
	}
	return uniqInts(out)
}
