package spec

import (
	"math/big"
	"sync"
)

// Exact oracle for CVSS v3.0 / v3.1 (specification section 7 equations and
// Appendix A Roundup), evaluated in math/big.Rat. Memoised so that the complete
// class enumeration is integer table look-ups.

func rat(s string) *big.Rat {
	r, ok := new(big.Rat).SetString(s)
	if !ok {
		panic("rat " + s)
	}
	return r
}
func rmul(a ...*big.Rat) *big.Rat {
	r := rat("1")
	for _, x := range a {
		r.Mul(r, x)
	}
	return r
}
func rsub(a, b *big.Rat) *big.Rat { return new(big.Rat).Sub(a, b) }
func radd(a, b *big.Rat) *big.Rat { return new(big.Rat).Add(a, b) }
func rpow(a *big.Rat, n int) *big.Rat {
	r := rat("1")
	for i := 0; i < n; i++ {
		r.Mul(r, a)
	}
	return r
}
func rmin(a, b *big.Rat) *big.Rat {
	if a.Cmp(b) < 0 {
		return a
	}
	return b
}

// Weights, specification section 7.4 (metric values).
var w3AV = map[string]string{"N": "0.85", "A": "0.62", "L": "0.55", "P": "0.2"}
var w3AC = map[string]string{"L": "0.77", "H": "0.44"}
var w3UI = map[string]string{"N": "0.85", "R": "0.62"}
var w3CIA = map[string]string{"H": "0.56", "L": "0.22", "N": "0"}
var w3E = map[string]int64{"X": 100, "H": 100, "F": 97, "P": 94, "U": 91}
var w3RL = map[string]int64{"X": 100, "U": 100, "W": 97, "T": 96, "O": 95}
var w3RC = map[string]int64{"X": 100, "C": 100, "R": 96, "U": 92}
var w3Req = map[string]string{"X": "1", "H": "1.5", "M": "1", "L": "0.5"}

func w3PR(pr, scope string) string {
	switch pr {
	case "N":
		return "0.85"
	case "L":
		if scope == "C" {
			return "0.68"
		}
		return "0.62"
	case "H":
		if scope == "C" {
			return "0.5"
		}
		return "0.27"
	}
	panic("PR " + pr)
}

// CeilTenths is Roundup over the reals: the smallest k with k/10 >= x.
func CeilTenths(x *big.Rat) int64 {
	t := rmul(x, rat("10"))
	q, m := new(big.Int).DivMod(t.Num(), t.Denom(), new(big.Int))
	if m.Sign() != 0 {
		q.Add(q, big.NewInt(1))
	}
	return q.Int64()
}

// Roundup31 is the v3.1 Appendix A integer algorithm evaluated on the exact
// value; half reports whether round_to_nearest_integer met an exact .5.
func Roundup31(x *big.Rat) (k int64, half bool) {
	t := rmul(x, rat("100000"))
	t2 := radd(t, rat("1/2"))
	q, m := new(big.Int).DivMod(t2.Num(), t2.Denom(), new(big.Int))
	half = m.Sign() == 0 && !t.IsInt()
	i := q.Int64()
	if i%10000 == 0 {
		return i / 10000, half
	}
	return i/10000 + 1, half
}

// V3Oracle evaluates one version (3.0 or 3.1).
type V3Oracle struct {
	V31 bool
	mu  sync.Mutex
	exp map[string]*big.Rat // av ac pr ui s
	imp map[string]*big.Rat // c i a s (base impact)
	mim map[string]*big.Rat // c i a cr ir ar s (modified impact), plus flag
	cap map[string]bool     // MISS cap hit
	inn map[string]v3inner  // full inner environmental value
}

type v3inner struct {
	K        int64 // Roundup(min(...,10)) in tenths; -1 when ModifiedImpact <= 0
	Near     bool  // exact pre-rounding value within 1e-5 of a tenth
	Cap10    bool
	MissCap  bool
	NonPos   bool
	ExactStr string
}

func NewV3Oracle(v31 bool) *V3Oracle {
	return &V3Oracle{V31: v31, exp: map[string]*big.Rat{}, imp: map[string]*big.Rat{}, mim: map[string]*big.Rat{}, cap: map[string]bool{}, inn: map[string]v3inner{}}
}

func (o *V3Oracle) Exploitability(av, ac, pr, ui, s string) *big.Rat {
	k := av + ac + pr + ui + s
	o.mu.Lock()
	defer o.mu.Unlock()
	if r, ok := o.exp[k]; ok {
		return r
	}
	r := rmul(rat("8.22"), rat(w3AV[av]), rat(w3AC[ac]), rat(w3PR(pr, s)), rat(w3UI[ui]))
	o.exp[k] = r
	return r
}

// Impact is the base Impact sub score (same formula in 3.0 and 3.1).
func (o *V3Oracle) Impact(c, i, a, s string) *big.Rat {
	k := c + i + a + s
	o.mu.Lock()
	defer o.mu.Unlock()
	if r, ok := o.imp[k]; ok {
		return r
	}
	iss := rsub(rat("1"), rmul(rsub(rat("1"), rat(w3CIA[c])), rsub(rat("1"), rat(w3CIA[i])), rsub(rat("1"), rat(w3CIA[a]))))
	var r *big.Rat
	if s == "U" {
		r = rmul(rat("6.42"), iss)
	} else {
		r = rsub(rmul(rat("7.52"), rsub(iss, rat("0.029"))), rmul(rat("3.25"), rpow(rsub(iss, rat("0.02")), 15)))
	}
	o.imp[k] = r
	return r
}

// ModifiedImpact with the version's own formula; capped reports the 0.915 cap.
func (o *V3Oracle) ModifiedImpact(c, i, a, cr, ir, ar, s string) (*big.Rat, bool) {
	k := c + i + a + cr + ir + ar + s
	o.mu.Lock()
	defer o.mu.Unlock()
	if r, ok := o.mim[k]; ok {
		return r, o.cap[k]
	}
	miss := rsub(rat("1"), rmul(
		rsub(rat("1"), rmul(rat(w3Req[cr]), rat(w3CIA[c]))),
		rsub(rat("1"), rmul(rat(w3Req[ir]), rat(w3CIA[i]))),
		rsub(rat("1"), rmul(rat(w3Req[ar]), rat(w3CIA[a])))))
	capped := miss.Cmp(rat("0.915")) > 0
	miss = rmin(miss, rat("0.915"))
	var r *big.Rat
	switch {
	case s == "U":
		r = rmul(rat("6.42"), miss)
	case o.V31:
		r = rsub(rmul(rat("7.52"), rsub(miss, rat("0.029"))), rmul(rat("3.25"), rpow(rsub(rmul(miss, rat("0.9731")), rat("0.02")), 13)))
	default:
		r = rsub(rmul(rat("7.52"), rsub(miss, rat("0.029"))), rmul(rat("3.25"), rpow(rsub(miss, rat("0.02")), 15)))
	}
	o.mim[k] = r
	o.cap[k] = capped
	return r, capped
}

func nearTenth(x *big.Rat) bool {
	t := rmul(x, rat("10"))
	fl, m := new(big.Int).DivMod(t.Num(), t.Denom(), new(big.Int))
	_ = fl
	frac := new(big.Rat).SetFrac(m, t.Denom()) // in [0,1) of a tenth
	eps := rat("0.0001")                       // 1e-5 in score units = 1e-4 tenths
	return frac.Cmp(eps) < 0 || rsub(rat("1"), frac).Cmp(eps) < 0
}

func (o *V3Oracle) outer(imp, exp *big.Rat, scope string) (*big.Rat, bool) {
	var x *big.Rat
	if scope == "U" {
		x = radd(imp, exp)
	} else {
		x = rmul(rat("1.08"), radd(imp, exp))
	}
	c := x.Cmp(rat("10")) > 0
	return rmin(x, rat("10")), c
}

// BaseK returns the base score in tenths.
func (o *V3Oracle) BaseK(av, ac, pr, ui, s, c, i, a string) (int64, bool) {
	imp := o.Impact(c, i, a, s)
	if imp.Sign() <= 0 {
		return 0, false
	}
	x, _ := o.outer(imp, o.Exploitability(av, ac, pr, ui, s), s)
	return CeilTenths(x), nearTenth(x)
}

// TemporalK applies the temporal multiplication and Roundup to a score in
// tenths, in exact integer arithmetic: Roundup(k/10 * e * rl * rc).
func TemporalK3(k int64, e, rl, rc string) int64 {
	if k < 0 {
		return 0
	}
	n := k * w3E[e] * w3RL[rl] * w3RC[rc] // tenths * 10^6
	const d = 1000000
	return (n + d - 1) / d
}

// TemporalNear reports whether the exact temporal product is within 1e-5 of a tenth.
func TemporalNear3(k int64, e, rl, rc string) bool {
	n := k * w3E[e] * w3RL[rl] * w3RC[rc]
	r := n % 1000000
	return r < 100 || 1000000-r < 100
}

// EnvInner returns Roundup(min(1.08?*(MI+ME),10)) over the effective values.
func (o *V3Oracle) EnvInner(mav, mac, mpr, mui, ms, mc, mi, ma, cr, ir, ar string) v3inner {
	k := mav + mac + mpr + mui + ms + mc + mi + ma + cr + ir + ar
	o.mu.Lock()
	if r, ok := o.inn[k]; ok {
		o.mu.Unlock()
		return r
	}
	o.mu.Unlock()
	mimp, capped := o.ModifiedImpact(mc, mi, ma, cr, ir, ar, ms)
	var r v3inner
	r.MissCap = capped
	if mimp.Sign() <= 0 {
		r.K, r.NonPos = -1, true
	} else {
		x, c10 := o.outer(mimp, o.Exploitability(mav, mac, mpr, mui, ms), ms)
		r.K, r.Cap10, r.Near = CeilTenths(x), c10, nearTenth(x)
		r.ExactStr = x.FloatString(12)
	}
	o.mu.Lock()
	o.inn[k] = r
	o.mu.Unlock()
	return r
}

// V3Result is the oracle's answer for a full assignment.
type V3Result struct {
	Base, Temporal, Env int64 // tenths
	Impact, Expl        float64
	Near                bool // some rounding step was within 1e-5 of a tenth
	MissCap, Cap10      bool
	NonPos              bool // ModifiedImpact <= 0
}

// Score evaluates all five observable quantities of a full raw assignment
// (Modified metrics resolved here).
func (o *V3Oracle) Score(a Assignment) V3Result {
	v := V31
	var r V3Result
	var nb bool
	r.Base, nb = o.BaseK(a["AV"], a["AC"], a["PR"], a["UI"], a["S"], a["C"], a["I"], a["A"])
	r.Temporal = TemporalK3(r.Base, a["E"], a["RL"], a["RC"])
	ef := func(b string) string { return Effective(v, a, b) }
	in := o.EnvInner(ef("AV"), ef("AC"), ef("PR"), ef("UI"), ef("S"), ef("C"), ef("I"), ef("A"), a["CR"], a["IR"], a["AR"])
	r.Env = TemporalK3(in.K, a["E"], a["RL"], a["RC"])
	r.Near = nb || in.Near || TemporalNear3(r.Base, a["E"], a["RL"], a["RC"]) || (in.K >= 0 && TemporalNear3(in.K, a["E"], a["RL"], a["RC"]))
	r.MissCap, r.Cap10, r.NonPos = in.MissCap, in.Cap10, in.NonPos
	r.Impact, _ = o.Impact(a["C"], a["I"], a["A"], a["S"]).Float64()
	r.Expl, _ = o.Exploitability(a["AV"], a["AC"], a["PR"], a["UI"], a["S"]).Float64()
	return r
}

// EnvInnerExact returns min(1.08?*(ModifiedImpact+ModifiedExploitability),10)
// exactly, ok=false when ModifiedImpact <= 0 (self-tests).
func (o *V3Oracle) EnvInnerExact(mav, mac, mpr, mui, ms, mc, mi, ma, cr, ir, ar string) (*big.Rat, bool) {
	mimp, _ := o.ModifiedImpact(mc, mi, ma, cr, ir, ar, ms)
	if mimp.Sign() <= 0 {
		return nil, false
	}
	x, _ := o.outer(mimp, o.Exploitability(mav, mac, mpr, mui, ms), ms)
	return x, true
}

// TemporalExact3 returns k/10 * e * rl * rc exactly.
func TemporalExact3(k int64, e, rl, rc string) *big.Rat {
	return rmul(big.NewRat(k, 10), big.NewRat(w3E[e], 100), big.NewRat(w3RL[rl], 100), big.NewRat(w3RC[rc], 100))
}
