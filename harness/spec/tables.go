// Package spec is the trusted base of the verification harness: metric tables,
// reference grammars, the canonical serialiser and exact scoring oracles for
// CVSS v2.0, v3.0, v3.1 and v4.0. Everything here is written from the
// specification documents and the property statements, never derived from the
// code under test.
package spec

// Metric describes one metric of a CVSS version.
type Metric struct {
	Abv       string
	Vals      []string // every legal value, "not defined" first for optional metrics
	Mandatory bool
	Group     string // base | temporal | threat | env | supp
}

// Version describes one CVSS version.
type Version struct {
	Name    string // "2.0" "3.0" "3.1" "4.0"
	Header  string // literal prefix of a vector including its trailing '/', "" for v2
	ND      string // the "not defined" value
	Metrics []Metric
	idx     map[string]int
}

// Assignment maps every metric abbreviation of a version to a value.
type Assignment map[string]string

func (v *Version) Index(abv string) int {
	if i, ok := v.idx[abv]; ok {
		return i
	}
	return -1
}

func (v *Version) Metric(abv string) *Metric {
	if i, ok := v.idx[abv]; ok {
		return &v.Metrics[i]
	}
	return nil
}

func (v *Version) Has(abv string) bool { _, ok := v.idx[abv]; return ok }

func (m *Metric) HasValue(val string) bool {
	for _, x := range m.Vals {
		if x == val {
			return true
		}
	}
	return false
}

// Default returns the value a metric holds when it is not written in a vector
// (ND / X); mandatory metrics have none ("").
func (v *Version) Default(m *Metric) string {
	if m.Mandatory {
		return ""
	}
	return v.ND
}

// Optional returns the optional metrics in specification order.
func (v *Version) Optional() []Metric {
	var r []Metric
	for _, m := range v.Metrics {
		if !m.Mandatory {
			r = append(r, m)
		}
	}
	return r
}

func (v *Version) Base() []Metric {
	var r []Metric
	for _, m := range v.Metrics {
		if m.Mandatory {
			r = append(r, m)
		}
	}
	return r
}

// Clone copies an assignment.
func (a Assignment) Clone() Assignment {
	b := make(Assignment, len(a))
	for k, v := range a {
		b[k] = v
	}
	return b
}

func mk(name, header, nd string, ms []Metric) *Version {
	v := &Version{Name: name, Header: header, ND: nd, Metrics: ms, idx: map[string]int{}}
	for i, m := range ms {
		v.idx[m.Abv] = i
	}
	return v
}

func s(xs ...string) []string { return xs }

// CVSS v2.0 guide, section 2 (metrics) and 2.4 (vector).
var V2 = mk("2.0", "", "ND", []Metric{
	{"AV", s("L", "A", "N"), true, "base"},
	{"AC", s("H", "M", "L"), true, "base"},
	{"Au", s("M", "S", "N"), true, "base"},
	{"C", s("N", "P", "C"), true, "base"},
	{"I", s("N", "P", "C"), true, "base"},
	{"A", s("N", "P", "C"), true, "base"},
	{"E", s("ND", "U", "POC", "F", "H"), false, "temporal"},
	{"RL", s("ND", "OF", "TF", "W", "U"), false, "temporal"},
	{"RC", s("ND", "UC", "UR", "C"), false, "temporal"},
	{"CDP", s("ND", "N", "L", "LM", "MH", "H"), false, "env"},
	{"TD", s("ND", "N", "L", "M", "H"), false, "env"},
	{"CR", s("ND", "L", "M", "H"), false, "env"},
	{"IR", s("ND", "L", "M", "H"), false, "env"},
	{"AR", s("ND", "L", "M", "H"), false, "env"},
})

func v3metrics() []Metric {
	return []Metric{
		{"AV", s("N", "A", "L", "P"), true, "base"},
		{"AC", s("L", "H"), true, "base"},
		{"PR", s("N", "L", "H"), true, "base"},
		{"UI", s("N", "R"), true, "base"},
		{"S", s("U", "C"), true, "base"},
		{"C", s("H", "L", "N"), true, "base"},
		{"I", s("H", "L", "N"), true, "base"},
		{"A", s("H", "L", "N"), true, "base"},
		{"E", s("X", "H", "F", "P", "U"), false, "temporal"},
		{"RL", s("X", "U", "W", "T", "O"), false, "temporal"},
		{"RC", s("X", "C", "R", "U"), false, "temporal"},
		{"CR", s("X", "H", "M", "L"), false, "env"},
		{"IR", s("X", "H", "M", "L"), false, "env"},
		{"AR", s("X", "H", "M", "L"), false, "env"},
		{"MAV", s("X", "N", "A", "L", "P"), false, "env"},
		{"MAC", s("X", "L", "H"), false, "env"},
		{"MPR", s("X", "N", "L", "H"), false, "env"},
		{"MUI", s("X", "N", "R"), false, "env"},
		{"MS", s("X", "U", "C"), false, "env"},
		{"MC", s("X", "H", "L", "N"), false, "env"},
		{"MI", s("X", "H", "L", "N"), false, "env"},
		{"MA", s("X", "H", "L", "N"), false, "env"},
	}
}

// CVSS v3.0 / v3.1 specification, section 6 (vector string), table 15.
var V30 = mk("3.0", "CVSS:3.0/", "X", v3metrics())
var V31 = mk("3.1", "CVSS:3.1/", "X", v3metrics())

// CVSS v4.0 specification, section 7 (vector string), table 23.
var V4 = mk("4.0", "CVSS:4.0/", "X", []Metric{
	{"AV", s("N", "A", "L", "P"), true, "base"},
	{"AC", s("L", "H"), true, "base"},
	{"AT", s("N", "P"), true, "base"},
	{"PR", s("N", "L", "H"), true, "base"},
	{"UI", s("N", "P", "A"), true, "base"},
	{"VC", s("H", "L", "N"), true, "base"},
	{"VI", s("H", "L", "N"), true, "base"},
	{"VA", s("H", "L", "N"), true, "base"},
	{"SC", s("H", "L", "N"), true, "base"},
	{"SI", s("H", "L", "N"), true, "base"},
	{"SA", s("H", "L", "N"), true, "base"},
	{"E", s("X", "A", "P", "U"), false, "threat"},
	{"CR", s("X", "H", "M", "L"), false, "env"},
	{"IR", s("X", "H", "M", "L"), false, "env"},
	{"AR", s("X", "H", "M", "L"), false, "env"},
	{"MAV", s("X", "N", "A", "L", "P"), false, "env"},
	{"MAC", s("X", "L", "H"), false, "env"},
	{"MAT", s("X", "N", "P"), false, "env"},
	{"MPR", s("X", "N", "L", "H"), false, "env"},
	{"MUI", s("X", "N", "P", "A"), false, "env"},
	{"MVC", s("X", "H", "L", "N"), false, "env"},
	{"MVI", s("X", "H", "L", "N"), false, "env"},
	{"MVA", s("X", "H", "L", "N"), false, "env"},
	{"MSC", s("X", "H", "L", "N"), false, "env"},
	{"MSI", s("X", "S", "H", "L", "N"), false, "env"},
	{"MSA", s("X", "S", "H", "L", "N"), false, "env"},
	{"S", s("X", "N", "P"), false, "supp"},
	{"AU", s("X", "N", "Y"), false, "supp"},
	{"R", s("X", "A", "U", "I"), false, "supp"},
	{"V", s("X", "D", "C"), false, "supp"},
	{"RE", s("X", "L", "M", "H"), false, "supp"},
	{"U", s("X", "Clear", "Green", "Amber", "Red"), false, "supp"},
})

// Versions lists the four versions in a fixed order (index = version id used
// throughout the harness: 0=2.0 1=3.0 2=3.1 3=4.0).
var Versions = []*Version{V2, V30, V31, V4}

// ModifiedOf maps an overridable base metric to its Modified metric.
func ModifiedOf(v *Version) map[string]string {
	switch v.Name {
	case "3.0", "3.1":
		return map[string]string{"AV": "MAV", "AC": "MAC", "PR": "MPR", "UI": "MUI", "S": "MS", "C": "MC", "I": "MI", "A": "MA"}
	case "4.0":
		return map[string]string{"AV": "MAV", "AC": "MAC", "AT": "MAT", "PR": "MPR", "UI": "MUI", "VC": "MVC", "VI": "MVI", "VA": "MVA", "SC": "MSC", "SI": "MSI", "SA": "MSA"}
	}
	return nil
}

// OverridableOrder lists the overridable base metrics in specification order.
func OverridableOrder(v *Version) []string {
	switch v.Name {
	case "3.0", "3.1":
		return []string{"AV", "AC", "PR", "UI", "S", "C", "I", "A"}
	case "4.0":
		return []string{"AV", "AC", "AT", "PR", "UI", "VC", "VI", "VA", "SC", "SI", "SA"}
	}
	return nil
}

// ScoreDefaults are the values an undefined (X) metric scores as.
func ScoreDefaults(v *Version) map[string]string {
	switch v.Name {
	case "3.0", "3.1":
		return map[string]string{"E": "H", "RL": "U", "RC": "C", "CR": "M", "IR": "M", "AR": "M"}
	case "4.0":
		return map[string]string{"E": "A", "CR": "H", "IR": "H", "AR": "H"}
	}
	return nil
}

// Effective returns the effective value of an overridable base metric.
func Effective(v *Version, a Assignment, base string) string {
	m := ModifiedOf(v)[base]
	if mv := a[m]; mv != "" && mv != v.ND {
		return mv
	}
	return a[base]
}
