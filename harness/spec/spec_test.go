package spec_test

import (
	"crypto/sha256"
	"fmt"
	"math/big"
	"sort"
	"testing"

	"pgregory.net/rapid"

	"verifharness/gen"
	"verifharness/spec"
)

// The two reference recognisers (split-based and regular expressions) must agree.
func TestRecognisersAgree(t *testing.T) {
	rapid.Check(t, func(rt *rapid.T) {
		c := gen.AnyString(rt)
		for _, v := range spec.Versions {
			a, b := spec.Member(v, string(c.S)), spec.MemberAlt(v, string(c.S))
			if a != b {
				rt.Fatalf("v%s %q: split-based=%v regexp=%v", v.Name, string(c.S), a, b)
			}
		}
		if c.Source == "valid" {
			v := spec.Versions[c.Base.Ver]
			a, ok := spec.Parse(v, string(c.S))
			if !ok {
				rt.Fatalf("generated valid vector %q rejected by the reference parser", string(c.S))
			}
			for k, val := range c.Base.A {
				if a[k] != val {
					rt.Fatalf("%q: reference parser reads %s=%q, built from %q", string(c.S), k, a[k], val)
				}
			}
			canon := spec.Canon(v, a)
			if !spec.Member(v, canon) {
				rt.Fatalf("canonical form %q is not a member", canon)
			}
			b, _ := spec.Parse(v, canon)
			for k, val := range a {
				if b[k] != val {
					rt.Fatalf("canonical form %q changes %s", canon, k)
				}
			}
		}
	})
}

// Lookup table shape: exactly the 270 reachable MacroVectors; content pinned.
func TestV4LookupTable(t *testing.T) {
	if len(spec.V4Lookup) != 270 {
		t.Fatalf("%d entries", len(spec.V4Lookup))
	}
	keys := make([]string, 0, 270)
	for k := range spec.V4Lookup {
		keys = append(keys, k)
	}
	sort.Strings(keys)
	h := sha256.New()
	for _, k := range keys {
		fmt.Fprintf(h, "%s=%d;", k, spec.V4Lookup[k])
	}
	const want = "1f47551d75e7e3b3067e8d6931097c6d1b8a20617194fe144d54a636c936433f"
	got := fmt.Sprintf("%x", h.Sum(nil))
	if got != want {
		t.Fatalf("lookup table changed: sha256 %s", got)
	}
	t.Logf("lookup sha256 %s", got)
	reach := map[string]bool{}
	n := spec.V4Classes()
	for i := 0; i < n; i += 1 {
		e, _ := spec.V4Decode(i)
		reach[spec.MVKey(spec.MacroV4(e))] = true
	}
	if len(reach) != 270 {
		t.Fatalf("%d reachable MacroVectors", len(reach))
	}
	for k := range reach {
		if _, ok := spec.V4Lookup[k]; !ok {
			t.Fatalf("reachable MacroVector %s missing from the table", k)
		}
	}
	// the table is non-increasing along every EQ (a structural sanity check)
	for k, v := range spec.V4Lookup {
		for pos := 0; pos < 6; pos++ {
			b := []byte(k)
			b[pos]++
			if w, ok := spec.V4Lookup[string(b)]; ok && w > v {
				t.Fatalf("lookup increases from %s (%d) to %s (%d)", k, v, string(b), w)
			}
		}
	}
}

// Depths, tie count and monotonicity of the v4 oracle on the whole class space.
func TestV4OracleSelfChecks(t *testing.T) {
	n := spec.V4Classes()
	ks := make([]int16, n)
	ties := 0
	maxDist := map[string]int{}
	for i := 0; i < n; i++ {
		e, _ := spec.V4Decode(i)
		r := spec.ScoreV4(e)
		ks[i] = int16(r.K)
		if r.Tie {
			ties++
		}
		if r.K < 0 || r.K > 100 {
			t.Fatalf("class %d: %d", i, r.K)
		}
	}
	if ties != 866384 {
		t.Fatalf("ties = %d, the property statement says about 5.7%% (866,384)", ties)
	}
	_ = maxDist
	st := spec.V4Strides()
	for i := 0; i < n; i++ {
		_, d := spec.V4Decode(i)
		for m := 0; m < 15; m++ {
			if d[m]+1 < len(spec.V4Dims[m].Vals) {
				if ks[i+st[m]] < ks[i] {
					a, _ := spec.V4Decode(i)
					b, _ := spec.V4Decode(i + st[m])
					t.Fatalf("oracle not monotone: %+v=%d -> %+v=%d", a, ks[i], b, ks[i+st[m]])
				}
			}
		}
	}
}

// Depth constants recomputed by enumerating each level: depth+1 = 1 + the
// largest severity distance of a member of the level to its (first dominating)
// highest severity vector; and every dominating highest-severity vector gives
// the same distance, so the "first dominating" choice cannot matter.
func TestV4Depths(t *testing.T) {
	got1, got2, got4 := map[int]int{}, map[int]int{}, map[int]int{}
	got36 := map[[2]int]int{}
	n := spec.V4Classes()
	for i := 0; i < n; i++ {
		e, _ := spec.V4Decode(i)
		if e.E != "A" { // E does not take part in any distance
			continue
		}
		q := spec.MacroV4(e)
		d := spec.DistancesV4(e)
		if d[0] > got1[q[0]] {
			got1[q[0]] = d[0]
		}
		if d[1] > got2[q[1]] {
			got2[q[1]] = d[1]
		}
		if d[2] > got36[[2]int{q[2], q[5]}] {
			got36[[2]int{q[2], q[5]}] = d[2]
		}
		if d[3] > got4[q[3]] {
			got4[q[3]] = d[3]
		}
		if !spec.AllDominatingAgreeV4(e) {
			t.Fatalf("%+v: dominating highest-severity vectors disagree on the distance", e)
		}
	}
	for l, w := range spec.V4DepthEQ1 {
		if got1[l]+1 != w {
			t.Errorf("EQ1 level %d: max distance %d, depth+1 constant %d", l, got1[l], w)
		}
	}
	for l, w := range spec.V4DepthEQ2 {
		if got2[l]+1 != w {
			t.Errorf("EQ2 level %d: max distance %d, constant %d", l, got2[l], w)
		}
	}
	for l, w := range spec.V4DepthEQ4 {
		if got4[l]+1 != w {
			t.Errorf("EQ4 level %d: max distance %d, constant %d", l, got4[l], w)
		}
	}
	for k, w := range spec.V4DepthEQ36 {
		if got36[k]+1 != w {
			t.Errorf("EQ3EQ6 level %v: max distance %d, constant %d", k, got36[k], w)
		}
	}
}

// v3: Roundup over the reals (ceiling to one decimal) and the 3.1 Appendix A
// integer algorithm evaluated on the exact value coincide on the whole domain,
// and no exact value hits the .5 case of round-to-nearest.
func TestV3RoundupDefinitionsCoincide(t *testing.T) {
	for _, v31 := range []bool{false, true} {
		o := spec.NewV3Oracle(v31)
		v := spec.V31
		vals := func(a string) []string { return v.Metric(a).Vals }
		n := 0
		for _, av := range vals("AV") {
			for _, ac := range vals("AC") {
				for _, pr := range vals("PR") {
					for _, ui := range vals("UI") {
						for _, s := range vals("S") {
							for _, c := range vals("C") {
								for _, i := range vals("I") {
									for _, a := range vals("A") {
										for _, cr := range vals("CR") {
											for _, ir := range vals("IR") {
												for _, ar := range vals("AR") {
													x, ok := o.EnvInnerExact(av, ac, pr, ui, s, c, i, a, cr, ir, ar)
													if !ok {
														continue
													}
													k1 := spec.CeilTenths(x)
													k2, half := spec.Roundup31(x)
													if k1 != k2 || half {
														t.Fatalf("v31=%v %s: ceil=%d roundup31=%d half=%v", v31, x.FloatString(10), k1, k2, half)
													}
													n++
												}
											}
										}
									}
								}
							}
						}
					}
				}
			}
		}
		// the temporal step: k/10 * e*rl*rc for every k and weights
		for k := int64(0); k <= 100; k++ {
			for _, e := range vals("E") {
				for _, rl := range vals("RL") {
					for _, rc := range vals("RC") {
						x := spec.TemporalExact3(k, e, rl, rc)
						k1 := spec.CeilTenths(x)
						k2, half := spec.Roundup31(x)
						if k1 != k2 || half || k1 != spec.TemporalK3(k, e, rl, rc) {
							t.Fatalf("temporal %d %s%s%s: %d %d %v %d", k, e, rl, rc, k1, k2, half, spec.TemporalK3(k, e, rl, rc))
						}
					}
				}
			}
		}
		t.Logf("v31=%v: %d inner values checked", v31, n)
	}
	_ = big.NewRat
}

// v2: the counts the design measured (an end-to-end regression check of the oracle).
func TestV2OracleCounts(t *testing.T) {
	o := spec.NewV2Oracle()
	v := spec.V2
	ties := 0
	for _, av := range v.Metrics[0].Vals {
		for _, ac := range v.Metrics[1].Vals {
			for _, au := range v.Metrics[2].Vals {
				for _, c := range v.Metrics[3].Vals {
					for _, i := range v.Metrics[4].Vals {
						for _, a := range v.Metrics[5].Vals {
							b := o.BaseSet(av, ac, au, c, i, a)
							for _, e := range v.Metrics[6].Vals {
								for _, rl := range v.Metrics[7].Vals {
									for _, rc := range v.Metrics[8].Vals {
										if len(o.TemporalSet(b, e, rl, rc)) > 1 {
											ties++
										}
									}
								}
							}
						}
					}
				}
			}
		}
	}
	if ties != 1818 {
		t.Fatalf("temporal tie classes = %d, want 1818", ties)
	}
	// worked examples of the guide (section 3.3)
	for _, ex := range []struct {
		s       string
		b, t, e int
	}{
		{"AV:N/AC:L/Au:N/C:N/I:N/A:C/E:F/RL:OF/RC:C", 78, 64, 64},
		{"AV:N/AC:L/Au:N/C:C/I:C/A:C/E:F/RL:OF/RC:C", 100, 83, 83},
		{"AV:L/AC:H/Au:N/C:C/I:C/A:C/E:POC/RL:OF/RC:C", 62, 49, 49},
	} {
		a, ok := spec.Parse(v, ex.s)
		if !ok {
			t.Fatal(ex.s)
		}
		r := o.Score(a)
		if !spec.InSet(r.Base, ex.b) || !spec.InSet(r.Temporal, ex.t) || !spec.InSet(r.Env, ex.e) {
			t.Fatalf("%s: %v %v %v", ex.s, r.Base, r.Temporal, r.Env)
		}
	}
}

// Worked examples of the specifications / FIRST calculators for v3 and v4.
func TestWorkedExamples(t *testing.T) {
	o31 := spec.NewV3Oracle(true)
	o30 := spec.NewV3Oracle(false)
	for _, ex := range []struct {
		o       *spec.V3Oracle
		v       *spec.Version
		s       string
		b, t, e int64
	}{
		{o31, spec.V31, "CVSS:3.1/AV:N/AC:L/PR:N/UI:N/S:C/C:H/I:H/A:H", 100, 100, 100}, // CVE-2021-44228
		{o31, spec.V31, "CVSS:3.1/AV:N/AC:L/PR:L/UI:R/S:C/C:L/I:L/A:N", 54, 54, 54},    // CVE-2021-28378
		{o31, spec.V31, "CVSS:3.1/AV:N/AC:L/PR:H/UI:N/S:U/C:H/I:H/A:H", 72, 72, 72},    // CVE-2020-14144
		{o31, spec.V31, "CVSS:3.1/AV:A/AC:H/PR:L/UI:N/S:C/C:H/I:L/A:L/E:F/RL:U/RC:R/CR:H/IR:M/AR:L/MAV:N/MAC:L/MPR:N/MUI:N/MS:C/MC:H/MI:H/MA:H", 71, 67, 94},
		{o30, spec.V30, "CVSS:3.0/AV:N/AC:L/PR:N/UI:R/S:U/C:N/I:H/A:N", 65, 65, 65},
		{o30, spec.V30, "CVSS:3.0/AV:N/AC:L/PR:N/UI:N/S:U/C:H/I:H/A:H", 98, 98, 98},
		{o30, spec.V30, "CVSS:3.0/AV:A/AC:H/PR:L/UI:N/S:C/C:H/I:L/A:L/E:F/RL:U/RC:R/CR:H/IR:M/AR:L/MAV:N/MAC:L/MPR:N/MUI:N/MS:C/MC:H/MI:H/MA:H", 71, 67, 94},
	} {
		a, ok := spec.Parse(ex.v, ex.s)
		if !ok {
			t.Fatal(ex.s)
		}
		r := ex.o.Score(a)
		if r.Base != ex.b || r.Temporal != ex.t || r.Env != ex.e {
			t.Errorf("%s: oracle %d %d %d, want %d %d %d", ex.s, r.Base, r.Temporal, r.Env, ex.b, ex.t, ex.e)
		}
	}
	for _, ex := range []struct {
		s string
		k int
	}{
		// values of the FIRST calculator, as pinned by the repository's own TestScore
		{"CVSS:4.0/AV:N/AC:L/AT:N/PR:N/UI:N/VC:H/VI:H/VA:H/SC:H/SI:H/SA:H", 100},
		{"CVSS:4.0/AV:N/AC:L/AT:N/PR:N/UI:N/VC:N/VI:N/VA:N/SC:N/SI:N/SA:N", 0},
		{"CVSS:4.0/AV:N/AC:L/AT:N/PR:N/UI:N/VC:H/VI:H/VA:H/SC:N/SI:N/SA:N", 93},
		{"CVSS:4.0/AV:N/AC:L/AT:N/PR:N/UI:N/VC:N/VI:N/VA:N/SC:H/SI:H/SA:H", 79},
		{"CVSS:4.0/AV:N/AC:L/AT:N/PR:N/UI:N/VC:H/VI:H/VA:H/SC:H/SI:H/SA:H/E:U", 91},
		{"CVSS:4.0/AV:N/AC:L/AT:N/PR:N/UI:N/VC:H/VI:H/VA:H/SC:H/SI:H/SA:H/MVI:L/MSA:S", 98},
		{"CVSS:4.0/AV:P/AC:H/AT:P/PR:H/UI:A/VC:L/VI:N/VA:N/SC:N/SI:N/SA:N", 10},
		{"CVSS:4.0/AV:L/AC:L/AT:N/PR:L/UI:P/VC:N/VI:H/VA:H/SC:N/SI:L/SA:L", 52},
		{"CVSS:4.0/AV:L/AC:L/AT:N/PR:L/UI:P/VC:N/VI:H/VA:H/SC:N/SI:L/SA:L/E:P/CR:H/IR:M/AR:H/MAV:A/MAT:P/MPR:N/MVI:H/MVA:N/MSI:H/MSA:N/S:N/V:C/U:Amber", 47},
		{"CVSS:4.0/AV:N/AC:H/AT:N/PR:H/UI:N/VC:N/VI:N/VA:H/SC:H/SI:H/SA:H/CR:L/IR:L/AR:L", 58},
	} {
		a, ok := spec.Parse(spec.V4, ex.s)
		if !ok {
			t.Fatal(ex.s)
		}
		if r := spec.ScoreV4(spec.EffectiveV4(a)); r.K != ex.k {
			t.Errorf("%s: oracle %d, want %d", ex.s, r.K, ex.k)
		}
	}
}
