package spec

import "fmt"

// Exact oracle for the CVSS v4.0 score (specification section 8.2 and the FIRST
// reference implementation), written over metric letters.
//
// The result is an exact fraction of tenths with denominator 840*n (840 = lcm
// of all depths+1, n = number of existing next-lower MacroVectors), rounded
// half-up in integer arithmetic.

// Eff4 holds the 15 effective metric values the score depends on.
// SI and SA may be "S" (Safety, only reachable through MSI/MSA).
type Eff4 struct {
	AV, AC, AT, PR, UI, VC, VI, VA, SC, SI, SA, E, CR, IR, AR string
}

// V4Dims lists the 15 effective metrics with their values in ASCENDING severity
// (specification order of "worse"). Used for class enumeration (C04/C11) and the
// neighbour graph (C12).
var V4Dims = []struct {
	Name string
	Vals []string
}{
	{"AV", []string{"P", "L", "A", "N"}},
	{"AC", []string{"H", "L"}},
	{"AT", []string{"P", "N"}},
	{"PR", []string{"H", "L", "N"}},
	{"UI", []string{"A", "P", "N"}},
	{"VC", []string{"N", "L", "H"}},
	{"VI", []string{"N", "L", "H"}},
	{"VA", []string{"N", "L", "H"}},
	{"SC", []string{"N", "L", "H"}},
	{"SI", []string{"N", "L", "H", "S"}},
	{"SA", []string{"N", "L", "H", "S"}},
	{"E", []string{"U", "P", "A"}},
	{"CR", []string{"L", "M", "H"}},
	{"IR", []string{"L", "M", "H"}},
	{"AR", []string{"L", "M", "H"}},
}

// V4Classes is the number of effective classes (15,116,544).
func V4Classes() int {
	n := 1
	for _, d := range V4Dims {
		n *= len(d.Vals)
	}
	return n
}

// V4Strides returns the index stride of each dimension (last dimension fastest).
func V4Strides() []int {
	st := make([]int, len(V4Dims))
	s := 1
	for i := len(V4Dims) - 1; i >= 0; i-- {
		st[i] = s
		s *= len(V4Dims[i].Vals)
	}
	return st
}

// V4Decode maps a class index to its effective values and per-dimension digits.
func V4Decode(idx int) (Eff4, [15]int) {
	var d [15]int
	for i := 14; i >= 0; i-- {
		n := len(V4Dims[i].Vals)
		d[i] = idx % n
		idx /= n
	}
	g := func(i int) string { return V4Dims[i].Vals[d[i]] }
	return Eff4{g(0), g(1), g(2), g(3), g(4), g(5), g(6), g(7), g(8), g(9), g(10), g(11), g(12), g(13), g(14)}, d
}

// EffectiveV4 resolves a full v4.0 assignment to its effective values:
// Modified metric unless X, E:X -> A, CR/IR/AR:X -> H.
func EffectiveV4(a Assignment) Eff4 {
	ef := func(b string) string { return Effective(V4, a, b) }
	dflt := func(k, d string) string {
		if a[k] == "X" || a[k] == "" {
			return d
		}
		return a[k]
	}
	return Eff4{
		AV: ef("AV"), AC: ef("AC"), AT: ef("AT"), PR: ef("PR"), UI: ef("UI"),
		VC: ef("VC"), VI: ef("VI"), VA: ef("VA"), SC: ef("SC"), SI: ef("SI"), SA: ef("SA"),
		E: dflt("E", "A"), CR: dflt("CR", "H"), IR: dflt("IR", "H"), AR: dflt("AR", "H"),
	}
}

// AssignmentFromEff4 builds a representative full assignment for an effective
// class: base metrics carry the effective value, SI/SA = S is carried by
// MSI/MSA:S (base N), everything else X.
func AssignmentFromEff4(e Eff4) Assignment {
	a := blank(V4)
	a["AV"], a["AC"], a["AT"], a["PR"], a["UI"] = e.AV, e.AC, e.AT, e.PR, e.UI
	a["VC"], a["VI"], a["VA"], a["SC"] = e.VC, e.VI, e.VA, e.SC
	if e.SI == "S" {
		a["SI"], a["MSI"] = "N", "S"
	} else {
		a["SI"] = e.SI
	}
	if e.SA == "S" {
		a["SA"], a["MSA"] = "N", "S"
	} else {
		a["SA"] = e.SA
	}
	a["E"], a["CR"], a["IR"], a["AR"] = e.E, e.CR, e.IR, e.AR
	return a
}

// severity level of a value inside its metric: 0 = most severe (the "level"
// used for severity distances, specification section 8.2 / reference
// implementation's *_levels tables, in steps of one).
func lvl4(metric, val string) int {
	var order string
	switch metric {
	case "AV":
		order = "NALP"
	case "PR":
		order = "NLH"
	case "UI":
		order = "NPA"
	case "AC":
		order = "LH"
	case "AT":
		order = "NP"
	case "VC", "VI", "VA":
		order = "HLN"
	case "SC":
		order = "_HLN" // aligned with SI/SA so that H=1
	case "SI", "SA":
		order = "SHLN"
	case "CR", "IR", "AR":
		order = "HML"
	default:
		panic("lvl4: metric " + metric)
	}
	for i := 0; i < len(order); i++ {
		if order[i] == val[0] && len(val) == 1 {
			return i
		}
	}
	panic("lvl4: " + metric + ":" + val)
}

type maxVec map[string]string

// Highest severity vectors per MacroVector level, specification tables 24-30.
var v4MaxEQ1 = [][]maxVec{
	{{"AV": "N", "PR": "N", "UI": "N"}},
	{{"AV": "A", "PR": "N", "UI": "N"}, {"AV": "N", "PR": "L", "UI": "N"}, {"AV": "N", "PR": "N", "UI": "P"}},
	{{"AV": "P", "PR": "N", "UI": "N"}, {"AV": "A", "PR": "L", "UI": "P"}},
}
var v4MaxEQ2 = [][]maxVec{
	{{"AC": "L", "AT": "N"}},
	{{"AC": "H", "AT": "N"}, {"AC": "L", "AT": "P"}},
}
var v4MaxEQ4 = [][]maxVec{
	{{"SC": "H", "SI": "S", "SA": "S"}},
	{{"SC": "H", "SI": "H", "SA": "H"}},
	{{"SC": "L", "SI": "L", "SA": "L"}},
}

func m6(vc, vi, va, cr, ir, ar string) maxVec {
	return maxVec{"VC": vc, "VI": vi, "VA": va, "CR": cr, "IR": ir, "AR": ar}
}

var v4MaxEQ36 = map[[2]int][]maxVec{
	{0, 0}: {m6("H", "H", "H", "H", "H", "H")},
	{0, 1}: {m6("H", "H", "L", "M", "M", "H"), m6("H", "H", "H", "M", "M", "M")},
	{1, 0}: {m6("L", "H", "H", "H", "H", "H"), m6("H", "L", "H", "H", "H", "H")},
	{1, 1}: {m6("L", "H", "L", "H", "M", "H"), m6("L", "H", "H", "H", "M", "M"), m6("H", "L", "H", "M", "H", "M"), m6("H", "L", "L", "M", "H", "H"), m6("L", "L", "H", "H", "H", "M")},
	{2, 1}: {m6("L", "L", "L", "H", "H", "H")},
}

// Depths + 1 (the divisor of the proportional distance): number of severity
// steps inside the MacroVector level, plus one. spec_test.go recomputes them by
// enumeration.
var V4DepthEQ1 = []int{1, 4, 5}
var V4DepthEQ2 = []int{1, 2}
var V4DepthEQ4 = []int{6, 5, 4}
var V4DepthEQ36 = map[[2]int]int{{0, 0}: 7, {0, 1}: 6, {1, 0}: 8, {1, 1}: 8, {2, 1}: 10}

func (e Eff4) Get(k string) string {
	switch k {
	case "AV":
		return e.AV
	case "AC":
		return e.AC
	case "AT":
		return e.AT
	case "PR":
		return e.PR
	case "UI":
		return e.UI
	case "VC":
		return e.VC
	case "VI":
		return e.VI
	case "VA":
		return e.VA
	case "SC":
		return e.SC
	case "SI":
		return e.SI
	case "SA":
		return e.SA
	case "E":
		return e.E
	case "CR":
		return e.CR
	case "IR":
		return e.IR
	case "AR":
		return e.AR
	}
	panic("Eff4.Get " + k)
}

// MacroV4 computes EQ1..EQ6 (specification tables 24-29).
func MacroV4(e Eff4) [6]int {
	var q [6]int
	switch {
	case e.AV == "N" && e.PR == "N" && e.UI == "N":
		q[0] = 0
	case (e.AV == "N" || e.PR == "N" || e.UI == "N") && e.AV != "P":
		q[0] = 1
	default:
		q[0] = 2
	}
	if e.AC == "L" && e.AT == "N" {
		q[1] = 0
	} else {
		q[1] = 1
	}
	switch {
	case e.VC == "H" && e.VI == "H":
		q[2] = 0
	case e.VC == "H" || e.VI == "H" || e.VA == "H":
		q[2] = 1
	default:
		q[2] = 2
	}
	switch {
	case e.SI == "S" || e.SA == "S":
		q[3] = 0
	case e.SC == "H" || e.SI == "H" || e.SA == "H":
		q[3] = 1
	default:
		q[3] = 2
	}
	switch e.E {
	case "A":
		q[4] = 0
	case "P":
		q[4] = 1
	case "U":
		q[4] = 2
	default:
		panic("E:" + e.E)
	}
	if (e.CR == "H" && e.VC == "H") || (e.IR == "H" && e.VI == "H") || (e.AR == "H" && e.VA == "H") {
		q[5] = 0
	} else {
		q[5] = 1
	}
	return q
}

func MVKey(q [6]int) string {
	return string([]byte{byte('0' + q[0]), byte('0' + q[1]), byte('0' + q[2]), byte('0' + q[3]), byte('0' + q[4]), byte('0' + q[5])})
}

// compiled form of the highest-severity vectors for speed: per candidate the
// (metric index into Eff4 order, level) pairs.
type cmax struct {
	idx [6]int8
	lv  [6]int8
	n   int
}

var effIdx = map[string]int8{"AV": 0, "AC": 1, "AT": 2, "PR": 3, "UI": 4, "VC": 5, "VI": 6, "VA": 7, "SC": 8, "SI": 9, "SA": 10, "E": 11, "CR": 12, "IR": 13, "AR": 14}
var effNames = []string{"AV", "AC", "AT", "PR", "UI", "VC", "VI", "VA", "SC", "SI", "SA", "E", "CR", "IR", "AR"}

func compileMax(c []maxVec) []cmax {
	out := make([]cmax, len(c))
	for i, mv := range c {
		// deterministic order
		n := 0
		for _, name := range effNames {
			if v, ok := mv[name]; ok {
				out[i].idx[n] = effIdx[name]
				out[i].lv[n] = int8(lvl4(name, v))
				n++
			}
		}
		out[i].n = n
	}
	return out
}

var (
	cMaxEQ1  [][]cmax
	cMaxEQ2  [][]cmax
	cMaxEQ4  [][]cmax
	cMaxEQ36 [3][2][]cmax
	lookupA  [3][2][3][3][3][2]int16 // -1 = missing
)

func init() {
	for _, c := range v4MaxEQ1 {
		cMaxEQ1 = append(cMaxEQ1, compileMax(c))
	}
	for _, c := range v4MaxEQ2 {
		cMaxEQ2 = append(cMaxEQ2, compileMax(c))
	}
	for _, c := range v4MaxEQ4 {
		cMaxEQ4 = append(cMaxEQ4, compileMax(c))
	}
	for k, c := range v4MaxEQ36 {
		cMaxEQ36[k[0]][k[1]] = compileMax(c)
	}
	for a := 0; a < 3; a++ {
		for b := 0; b < 2; b++ {
			for c := 0; c < 3; c++ {
				for d := 0; d < 3; d++ {
					for e := 0; e < 3; e++ {
						for f := 0; f < 2; f++ {
							v, ok := V4Lookup[MVKey([6]int{a, b, c, d, e, f})]
							if !ok {
								v = -1
							}
							lookupA[a][b][c][d][e][f] = int16(v)
						}
					}
				}
			}
		}
	}
}

func look(q [6]int) (int, bool) {
	if q[0] > 2 || q[1] > 1 || q[2] > 2 || q[3] > 2 || q[4] > 2 || q[5] > 1 {
		return 0, false
	}
	v := lookupA[q[0]][q[1]][q[2]][q[3]][q[4]][q[5]]
	return int(v), v >= 0
}

// distance to the first highest-severity vector that dominates e, or -1.
func dist4(lv *[15]int8, cands []cmax) int {
	for i := range cands {
		c := &cands[i]
		s, ok := 0, true
		for j := 0; j < c.n; j++ {
			d := int(lv[c.idx[j]]) - int(c.lv[j])
			if d < 0 {
				ok = false
				break
			}
			s += d
		}
		if ok {
			return s
		}
	}
	return -1
}

// V4Result is the exact score of an effective class.
type V4Result struct {
	K        int   // score in tenths, rounded half-up
	Tie      bool  // the exact value is an x.x5 tie
	Num, Den int64 // exact value in tenths = Num/Den
	MV       string
	Zero     bool // all six effective impacts None
	Lower    int  // number of existing next-lower MacroVectors
}

// ScoreV4 evaluates the specification algorithm exactly.
func ScoreV4(e Eff4) V4Result {
	if e.VC == "N" && e.VI == "N" && e.VA == "N" && e.SC == "N" && e.SI == "N" && e.SA == "N" {
		return V4Result{K: 0, Num: 0, Den: 1, Zero: true}
	}
	q := MacroV4(e)
	a, ok := look(q)
	if !ok {
		panic("no MacroVector " + MVKey(q))
	}
	var lv [15]int8
	for i, name := range effNames {
		if name == "E" {
			continue
		}
		lv[i] = int8(lvl4(name, e.Get(name)))
	}
	d1 := dist4(&lv, cMaxEQ1[q[0]])
	d2 := dist4(&lv, cMaxEQ2[q[1]])
	d4 := dist4(&lv, cMaxEQ4[q[3]])
	d36 := dist4(&lv, cMaxEQ36[q[2]][q[5]])
	if d1 < 0 || d2 < 0 || d4 < 0 || d36 < 0 {
		panic(fmt.Sprintf("no dominating highest-severity vector for %+v mv=%s: %d %d %d %d", e, MVKey(q), d1, d2, d4, d36))
	}
	type term struct{ b, d, D int }
	var terms [5]term
	n := 0
	q2 := q
	q2[0]++
	if v, ok := look(q2); ok {
		terms[n] = term{a - v, d1, V4DepthEQ1[q[0]]}
		n++
	}
	q2 = q
	q2[1]++
	if v, ok := look(q2); ok {
		terms[n] = term{a - v, d2, V4DepthEQ2[q[1]]}
		n++
	}
	{
		var low int
		have := false
		switch {
		case q[2] == 1 && q[5] == 1, q[2] == 0 && q[5] == 1:
			q2 = q
			q2[2]++
			low, have = look(q2)
		case q[2] == 1 && q[5] == 0:
			q2 = q
			q2[5]++
			low, have = look(q2)
		case q[2] == 0 && q[5] == 0:
			qa, qb := q, q
			qa[5]++
			qb[2]++
			va, oka := look(qa)
			vb, okb := look(qb)
			if oka && okb {
				low, have = va, true
				if vb > va {
					low = vb
				}
			} else if oka || okb {
				panic("half defined EQ3/EQ6 neighbour")
			}
		default: // 21 -> 32 does not exist
			q2 = q
			q2[2]++
			q2[5]++
			low, have = look(q2)
		}
		if have {
			terms[n] = term{a - low, d36, V4DepthEQ36[[2]int{q[2], q[5]}]}
			n++
		}
	}
	q2 = q
	q2[3]++
	if v, ok := look(q2); ok {
		terms[n] = term{a - v, d4, V4DepthEQ4[q[3]]}
		n++
	}
	q2 = q
	q2[4]++
	if v, ok := look(q2); ok {
		terms[n] = term{a - v, 0, 1}
		n++
	}
	res := V4Result{MV: MVKey(q), Lower: n}
	if n == 0 {
		res.K, res.Num, res.Den = a, int64(a), 1
		return res
	}
	const L = 840
	den := int64(L * n)
	num := int64(a) * den
	for i := 0; i < n; i++ {
		t := terms[i]
		if L%t.D != 0 {
			panic("depth does not divide 840")
		}
		num -= int64(t.b) * int64(t.d) * int64(L/t.D)
	}
	res.Num, res.Den = num, den
	res.K = int(floorDiv(2*num+den, 2*den))
	res.Tie = (2*num+den)%(2*den) == 0
	return res
}

func floorDiv(a, b int64) int64 {
	q := a / b
	if (a%b != 0) && ((a < 0) != (b < 0)) {
		q--
	}
	return q
}

// NomenclatureV4 is the oracle of property C16.
func NomenclatureV4(a Assignment) string {
	n := "CVSS-B"
	if a["E"] != "X" {
		n += "T"
	}
	for _, m := range V4.Metrics {
		if m.Group == "env" && a[m.Abv] != "X" {
			n += "E"
			break
		}
	}
	return n
}

// Rating is the oracle of property C15 (qualitative severity rating scale).
// ok=false means the score is outside [0,10].
func Rating(score float64) (string, bool) {
	switch {
	case score < 0 || score > 10:
		return "", false
	case score < 0.1:
		return "NONE", true
	case score < 4.0:
		return "LOW", true
	case score < 7.0:
		return "MEDIUM", true
	case score < 9.0:
		return "HIGH", true
	}
	return "CRITICAL", true
}

// DistancesV4 returns the severity distances of e to the first dominating
// highest-severity vector of its EQ1, EQ2, EQ3+EQ6 and EQ4 levels (self-tests).
func DistancesV4(e Eff4) [4]int {
	q := MacroV4(e)
	var lv [15]int8
	for i, name := range effNames {
		if name == "E" {
			continue
		}
		lv[i] = int8(lvl4(name, e.Get(name)))
	}
	return [4]int{dist4(&lv, cMaxEQ1[q[0]]), dist4(&lv, cMaxEQ2[q[1]]), dist4(&lv, cMaxEQ36[q[2]][q[5]]), dist4(&lv, cMaxEQ4[q[3]])}
}

// AllDominatingAgreeV4 reports whether every dominating highest-severity vector
// of each level gives the same distance (so the choice of the first cannot matter).
func AllDominatingAgreeV4(e Eff4) bool {
	q := MacroV4(e)
	var lv [15]int8
	for i, name := range effNames {
		if name == "E" {
			continue
		}
		lv[i] = int8(lvl4(name, e.Get(name)))
	}
	for _, cands := range [][]cmax{cMaxEQ1[q[0]], cMaxEQ2[q[1]], cMaxEQ36[q[2]][q[5]], cMaxEQ4[q[3]]} {
		first := -1
		for i := range cands {
			d := dist4(&lv, cands[i:i+1])
			if d < 0 {
				continue
			}
			if first < 0 {
				first = d
			} else if d != first {
				return false
			}
		}
		if first < 0 {
			return false
		}
	}
	return true
}
