// Package ev records what a check covered and writes evidence parts, replay
// files and reads the known-findings list.
package ev

import (
	"encoding/binary"
	"encoding/json"
	"fmt"
	"hash/fnv"
	"os"
	"path/filepath"
	"runtime"
	"sort"
	"strconv"
	"strings"
	"sync"
	"time"
)

// Env is the run configuration handed over by the driver.
type Env struct {
	Out    string // where evidence parts and replays are written (= Dir unless VERIF_OUT is set)
	Dir    string // /verif
	Tier   string // quick | thorough
	Seed   int64
	Shard  int // 0-based
	Shards int
	Phase  string // free text naming the phase of a multi-phase run
	Replay string // path of a replay file, "" in normal runs
	Light  bool   // VERIF_LIGHT=1: the lighter workload of the 32-bit process (largest walks skipped, rapid counts / 4)
}

func GetEnv() Env {
	e := Env{Dir: os.Getenv("VERIF_DIR"), Tier: os.Getenv("VERIF_TIER"), Phase: os.Getenv("VERIF_PHASE"), Replay: os.Getenv("VERIF_REPLAY"), Light: os.Getenv("VERIF_LIGHT") == "1"}
	if e.Dir == "" {
		e.Dir = "/verif"
	}
	e.Out = os.Getenv("VERIF_OUT")
	if e.Out == "" {
		e.Out = e.Dir
	}
	if e.Tier != "thorough" {
		e.Tier = "quick"
	}
	e.Seed, _ = strconv.ParseInt(os.Getenv("VERIF_SEED"), 10, 64)
	e.Shards = 1
	if s := os.Getenv("VERIF_SHARD"); s != "" {
		parts := strings.SplitN(s, "/", 2)
		if len(parts) == 2 {
			e.Shard, _ = strconv.Atoi(parts[0])
			e.Shards, _ = strconv.Atoi(parts[1])
		}
	}
	if e.Phase == "" {
		e.Phase = "main"
	}
	return e
}

// Scale returns q in the quick tier and t in the thorough tier, scaled by the
// optional VERIF_SCALE (float, for development runs only).
func (e Env) Scale(q, t int) int {
	n := q
	if e.Tier == "thorough" {
		n = t
	}
	if e.Light {
		n = (n + 3) / 4
	}
	if s := os.Getenv("VERIF_SCALE"); s != "" {
		if f, err := strconv.ParseFloat(s, 64); err == nil && f > 0 {
			n = int(float64(n) * f)
			if n < 1 {
				n = 1
			}
		}
	}
	return n
}

// Recorder accumulates coverage for one property in one process.
type Recorder struct {
	mu          sync.Mutex
	Prop        string
	Env         Env
	Rule        string
	start       time.Time
	evals       int64
	hashes      map[uint64]struct{}
	exactNT     int64 // non-trivial distinct cases counted exactly by an enumeration
	classes     map[string]int64
	samples     []any
	sampleSeen  map[string]int
	exhaustive  *bool
	violations  int
	known       map[string]int64 // known-finding id -> excluded cases
	extra       map[string]any
	assumptions []string
	inconcl     []string
	pmu     sync.Mutex
	pending *os.File
}

const maxSamplesPerLabel = 3
const maxSamples = 40

func New(prop string, env Env, rule string) *Recorder {
	return &Recorder{Prop: prop, Env: env, Rule: rule, start: time.Now(), hashes: map[uint64]struct{}{}, classes: map[string]int64{}, sampleSeen: map[string]int{}, known: map[string]int64{}, extra: map[string]any{}}
}

func Hash(s string) uint64 {
	h := fnv.New64a()
	h.Write([]byte(s))
	return h.Sum64()
}

// Case records one generated case. key identifies the case for distinctness
// ("" = trivial case, counted in evaluations only); class labels it for the
// distribution table.
func (r *Recorder) Case(class string, key string) {
	r.mu.Lock()
	r.evals++
	if class != "" {
		r.classes[class]++
	}
	if key != "" {
		r.hashes[Hash(key)] = struct{}{}
	}
	r.mu.Unlock()
}

// Count adds to a class counter without counting an evaluation.
func (r *Recorder) Count(class string, n int64) {
	r.mu.Lock()
	r.classes[class] += n
	r.mu.Unlock()
}

// AddExact records the result of a complete enumeration: n cases visited once
// each, nt of them non-trivial (distinct by construction).
func (r *Recorder) AddExact(n, nt int64) {
	if r.Env.Light || r.Env.Phase == "plain" {
		nt = 0 // the side processes re-evaluate inputs of the main process under another build: evaluations, not new distinct cases
	}
	r.mu.Lock()
	r.evals += n
	r.exactNT += nt
	r.mu.Unlock()
}

// Sample keeps a few cases per label for the evidence file.
func (r *Recorder) Sample(label string, v any) {
	r.mu.Lock()
	defer r.mu.Unlock()
	if r.sampleSeen[label] >= maxSamplesPerLabel || len(r.samples) >= maxSamples {
		return
	}
	r.sampleSeen[label]++
	r.samples = append(r.samples, map[string]any{"label": label, "case": v})
}

func (r *Recorder) WantSample(label string) bool {
	r.mu.Lock()
	defer r.mu.Unlock()
	return r.sampleSeen[label] < maxSamplesPerLabel && len(r.samples) < maxSamples
}

func (r *Recorder) SetExhaustive(b bool) {
	if r.Env.Light || r.Env.Phase == "plain" {
		return // the side processes (32-bit sample, plain build of C14) make no completeness claim of their own
	}
	r.mu.Lock()
	if r.exhaustive == nil || !b {
		r.exhaustive = &b
	}
	r.mu.Unlock()
}
func (r *Recorder) Extra(k string, v any) { r.mu.Lock(); r.extra[k] = v; r.mu.Unlock() }
func (r *Recorder) Assume(s string) {
	r.mu.Lock()
	r.assumptions = append(r.assumptions, s)
	r.mu.Unlock()
}
func (r *Recorder) Violation() { r.mu.Lock(); r.violations++; r.mu.Unlock() }
func (r *Recorder) Known(id string, n int64) {
	r.mu.Lock()
	r.known[id] += n
	r.mu.Unlock()
}
func (r *Recorder) KnownCounts() map[string]int64 {
	r.mu.Lock()
	defer r.mu.Unlock()
	m := map[string]int64{}
	for k, v := range r.known {
		m[k] = v
	}
	return m
}
func (r *Recorder) ClassCount(class string) int64 {
	r.mu.Lock()
	defer r.mu.Unlock()
	return r.classes[class]
}

// Inconclusive marks the run as not trustworthy (generator health problem).
func (r *Recorder) Inconclusive(format string, a ...any) {
	r.mu.Lock()
	r.inconcl = append(r.inconcl, fmt.Sprintf(format, a...))
	r.mu.Unlock()
}
func (r *Recorder) InconclusiveReasons() []string {
	r.mu.Lock()
	defer r.mu.Unlock()
	return append([]string(nil), r.inconcl...)
}

// Part is the on-disk form of one process's coverage.
type Part struct {
	Prop         string           `json:"property_id"`
	Tier         string           `json:"tier"`
	Seed         int64            `json:"seed"`
	Phase        string           `json:"phase"`
	Shard        int              `json:"shard"`
	Rule         string           `json:"rule"`
	Evaluations  int64            `json:"evaluations"`
	ExactNT      int64            `json:"exact_nontrivial"`
	HashedNT     int64            `json:"hashed_nontrivial"`
	Classes      map[string]int64 `json:"classes"`
	Samples      []any            `json:"samples"`
	Exhaustive   *bool            `json:"exhaustive,omitempty"`
	Violations   int              `json:"violations"`
	Known        map[string]int64 `json:"known_finding_cases,omitempty"`
	Extra        map[string]any   `json:"extra,omitempty"`
	Assumptions  []string         `json:"assumptions,omitempty"`
	Inconclusive []string         `json:"inconclusive,omitempty"`
	WallS        float64          `json:"wall_s"`
	HashFile     string           `json:"hash_file,omitempty"`
}

func (r *Recorder) partsDir() string { return filepath.Join(r.Env.Out, "evidence", ".parts", r.Prop) }

// WritePart writes the part file (and the hash set) for the driver to merge.
func (r *Recorder) WritePart() error {
	r.mu.Lock()
	defer r.mu.Unlock()
	dir := r.partsDir()
	if err := os.MkdirAll(dir, 0o755); err != nil {
		return err
	}
	name := fmt.Sprintf("%s-%02d", r.Env.Phase, r.Env.Shard)
	p := Part{Prop: r.Prop, Tier: r.Env.Tier, Seed: r.Env.Seed, Phase: r.Env.Phase, Shard: r.Env.Shard, Rule: r.Rule,
		Evaluations: r.evals, ExactNT: r.exactNT, HashedNT: int64(len(r.hashes)), Classes: r.classes, Samples: r.samples,
		Exhaustive: r.exhaustive, Violations: r.violations, Known: r.known, Extra: r.extra, Assumptions: r.assumptions,
		Inconclusive: r.inconcl, WallS: time.Since(r.start).Seconds()}
	if len(r.hashes) > 0 {
		hs := make([]uint64, 0, len(r.hashes))
		for h := range r.hashes {
			hs = append(hs, h)
		}
		sort.Slice(hs, func(i, j int) bool { return hs[i] < hs[j] })
		buf := make([]byte, 8*len(hs))
		for i, h := range hs {
			binary.LittleEndian.PutUint64(buf[8*i:], h)
		}
		p.HashFile = filepath.Join(dir, name+".hashes")
		if err := os.WriteFile(p.HashFile, buf, 0o644); err != nil {
			return err
		}
	}
	b, err := json.MarshalIndent(p, "", " ")
	if err != nil {
		return err
	}
	return os.WriteFile(filepath.Join(dir, name+".json"), b, 0o644)
}

// Replay is the on-disk form of a failing case.
type Replay struct {
	Prop   string          `json:"property_id"`
	Kind   string          `json:"kind"`
	Case   json.RawMessage `json:"case"`
	Error  string          `json:"error"`
	Seed   int64           `json:"seed"`
	Tier   string          `json:"tier"`
	Note   string          `json:"note,omitempty"`
	GoArch string          `json:"goarch,omitempty"` // set when the failing run was not the default 64-bit build
	Go     string          `json:"go,omitempty"`     // toolchain that built the failing process
}

// SaveReplay (over)writes the replay file of this process for the property.
// rapid re-runs the minimal failing case last, so the file left behind is the
// shrunk counterexample.
// Pending journals the case that is about to be evaluated (one file per process, overwritten in place,
// removed when the process ends normally). If the process is killed by the Go runtime itself while a
// case runs (a fatal error that no recover can catch: corrupted heap, concurrent map access inside the
// library), the driver finds the case here.
func (r *Recorder) Pending(kind string, c any) {
	b, e := json.Marshal(c)
	if e != nil {
		return
	}
	rp := Replay{Prop: r.Prop, Kind: kind, Case: b, Error: "the process was killed by a fatal error of the Go runtime while this case was running", Seed: r.Env.Seed, Tier: r.Env.Tier, Go: runtime.Version()}
	if runtime.GOARCH != "amd64" {
		rp.GoArch = runtime.GOARCH
	}
	out, _ := json.Marshal(rp)
	r.pmu.Lock()
	defer r.pmu.Unlock()
	if r.pending == nil {
		dir := filepath.Join(r.Env.Out, "replays")
		os.MkdirAll(dir, 0o755)
		f, err := os.OpenFile(r.PendingPath(), os.O_CREATE|os.O_RDWR|os.O_TRUNC, 0o644)
		if err != nil {
			return
		}
		r.pending = f
	}
	if _, err := r.pending.WriteAt(out, 0); err == nil {
		r.pending.Truncate(int64(len(out)))
	}
}

// PendingPath names the journal file of this process.
func (r *Recorder) PendingPath() string {
	return filepath.Join(r.Env.Out, "replays", fmt.Sprintf("%s-%s-%02d.pending.json", r.Prop, r.Env.Phase, r.Env.Shard))
}

// ClearPending removes the journal (normal end of the process).
func (r *Recorder) ClearPending() {
	r.pmu.Lock()
	defer r.pmu.Unlock()
	if r.pending != nil {
		r.pending.Close()
		r.pending = nil
	}
	os.Remove(r.PendingPath())
}

func (r *Recorder) SaveReplay(kind string, c any, err error) string {
	b, e := json.Marshal(c)
	if e != nil {
		b = []byte(strconv.Quote(fmt.Sprintf("%#v", c)))
	}
	rp := Replay{Prop: r.Prop, Kind: kind, Case: b, Error: err.Error(), Seed: r.Env.Seed, Tier: r.Env.Tier}
	if runtime.GOARCH != "amd64" {
		rp.GoArch = runtime.GOARCH
	}
	rp.Go = runtime.Version()
	out, _ := json.MarshalIndent(rp, "", " ")
	dir := filepath.Join(r.Env.Out, "replays")
	os.MkdirAll(dir, 0o755)
	path := filepath.Join(dir, fmt.Sprintf("%s-%s-%02d.json", r.Prop, r.Env.Phase, r.Env.Shard))
	os.WriteFile(path, out, 0o644)
	return path
}

func LoadReplay(path string) (*Replay, error) {
	b, err := os.ReadFile(path)
	if err != nil {
		return nil, err
	}
	var rp Replay
	if err := json.Unmarshal(b, &rp); err != nil {
		return nil, err
	}
	return &rp, nil
}

// Finding is one entry of KNOWN_FINDINGS.json.
type Finding struct {
	ID         string   `json:"id"`
	Status     string   `json:"status"` // known | fixed
	Properties []string `json:"properties"`
	Matcher    string   `json:"matcher"`
	Site       string   `json:"site"`
	What       string   `json:"what"`
	Example    string   `json:"example"`
	Commit     string   `json:"commit,omitempty"`
	Line       string   `json:"line,omitempty"`
}

type findingsFile struct {
	Findings []Finding `json:"findings"`
}

// KnownMatchers returns the matcher ids of findings with status "known" that
// list the property. The file is only ever read.
func KnownMatchers(env Env, prop string) map[string]Finding {
	out := map[string]Finding{}
	b, err := os.ReadFile(filepath.Join(env.Dir, "KNOWN_FINDINGS.json"))
	if err != nil {
		return out
	}
	var f findingsFile
	if json.Unmarshal(b, &f) != nil {
		return out
	}
	for _, x := range f.Findings {
		if x.Status != "known" {
			continue
		}
		for _, p := range x.Properties {
			if p == prop {
				out[x.Matcher] = x
			}
		}
	}
	return out
}
