// Package adapt puts the four go-cvss packages behind one interface. Only the
// exported API of the library is used.
package adapt

import (
	"errors"
	"fmt"

	gocvss20 "github.com/pandatix/go-cvss/20"
	gocvss30 "github.com/pandatix/go-cvss/30"
	gocvss31 "github.com/pandatix/go-cvss/31"
	gocvss40 "github.com/pandatix/go-cvss/40"

	"verifharness/spec"
)

// Obj is a CVSS object of any version.
type Obj interface {
	Get(string) (string, error)
	Set(string, string) error
	Vector() string
	Scores() []float64    // v2/v3: base, temporal, environmental; v4: score
	SubScores() []float64 // v2/v3: impact, exploitability; v4: none
	Clone() Obj           // independent copy (value copy)
	Eq(Obj) bool          // == on the value types
	State() string        // printable packed state, for hashing / messages
	Nomenclature() string // v4 only, "" otherwise
	Same(Obj) bool        // pointer identity
	Assign(Obj)           // *o = *p: the object overwritten as a whole, without any Set
	Fn(i int) float64
}

var ScoreNames = map[string][]string{
	"2.0": {"BaseScore", "TemporalScore", "EnvironmentalScore"},
	"3.0": {"BaseScore", "TemporalScore", "EnvironmentalScore"},
	"3.1": {"BaseScore", "TemporalScore", "EnvironmentalScore"},
	"4.0": {"Score"},
}

type O20 struct{ P *gocvss20.CVSS20 }
type O30 struct{ P *gocvss30.CVSS30 }
type O31 struct{ P *gocvss31.CVSS31 }
type O40 struct{ P *gocvss40.CVSS40 }

func (o O20) Get(a string) (string, error) { return o.P.Get(a) }
func (o O30) Get(a string) (string, error) { return o.P.Get(a) }
func (o O31) Get(a string) (string, error) { return o.P.Get(a) }
func (o O40) Get(a string) (string, error) { return o.P.Get(a) }
func (o O20) Set(a, v string) error        { return o.P.Set(a, v) }
func (o O30) Set(a, v string) error        { return o.P.Set(a, v) }
func (o O31) Set(a, v string) error        { return o.P.Set(a, v) }
func (o O40) Set(a, v string) error        { return o.P.Set(a, v) }
func (o O20) Vector() string               { return o.P.Vector() }
func (o O30) Vector() string               { return o.P.Vector() }
func (o O31) Vector() string               { return o.P.Vector() }
func (o O40) Vector() string               { return o.P.Vector() }
func (o O20) Scores() []float64 {
	return []float64{o.P.BaseScore(), o.P.TemporalScore(), o.P.EnvironmentalScore()}
}
func (o O30) Scores() []float64 {
	return []float64{o.P.BaseScore(), o.P.TemporalScore(), o.P.EnvironmentalScore()}
}
func (o O31) Scores() []float64 {
	return []float64{o.P.BaseScore(), o.P.TemporalScore(), o.P.EnvironmentalScore()}
}
func (o O40) Scores() []float64    { return []float64{o.P.Score()} }
func (o O20) SubScores() []float64 { return []float64{o.P.Impact(), o.P.Exploitability()} }
func (o O30) SubScores() []float64 { return []float64{o.P.Impact(), o.P.Exploitability()} }
func (o O31) SubScores() []float64 { return []float64{o.P.Impact(), o.P.Exploitability()} }
func (o O40) SubScores() []float64 { return nil }

// Fn calls ONE scoring method: 0 BaseScore, 1 TemporalScore, 2 EnvironmentalScore, 3 Impact,
// 4 Exploitability (v4.0: 0 Score only).
func (o O20) Fn(i int) float64 {
	switch i {
	case 0:
		return o.P.BaseScore()
	case 1:
		return o.P.TemporalScore()
	case 2:
		return o.P.EnvironmentalScore()
	case 3:
		return o.P.Impact()
	}
	return o.P.Exploitability()
}
func (o O30) Fn(i int) float64 {
	switch i {
	case 0:
		return o.P.BaseScore()
	case 1:
		return o.P.TemporalScore()
	case 2:
		return o.P.EnvironmentalScore()
	case 3:
		return o.P.Impact()
	}
	return o.P.Exploitability()
}
func (o O31) Fn(i int) float64 {
	switch i {
	case 0:
		return o.P.BaseScore()
	case 1:
		return o.P.TemporalScore()
	case 2:
		return o.P.EnvironmentalScore()
	case 3:
		return o.P.Impact()
	}
	return o.P.Exploitability()
}
func (o O40) Fn(i int) float64     { return o.P.Score() }
func (o O20) Clone() Obj           { c := *o.P; return O20{&c} }
func (o O30) Clone() Obj           { c := *o.P; return O30{&c} }
func (o O31) Clone() Obj           { c := *o.P; return O31{&c} }
func (o O40) Clone() Obj           { c := *o.P; return O40{&c} }
func (o O20) Assign(p Obj)         { *o.P = *p.(O20).P }
func (o O30) Assign(p Obj)         { *o.P = *p.(O30).P }
func (o O31) Assign(p Obj)         { *o.P = *p.(O31).P }
func (o O40) Assign(p Obj)         { *o.P = *p.(O40).P }
func (o O20) Eq(p Obj) bool        { return *o.P == *p.(O20).P }
func (o O30) Eq(p Obj) bool        { return *o.P == *p.(O30).P }
func (o O31) Eq(p Obj) bool        { return *o.P == *p.(O31).P }
func (o O40) Eq(p Obj) bool        { return *o.P == *p.(O40).P }
func (o O20) State() string        { return fmt.Sprintf("%v", *o.P) }
func (o O30) State() string        { return fmt.Sprintf("%v", *o.P) }
func (o O31) State() string        { return fmt.Sprintf("%v", *o.P) }
func (o O40) State() string        { return fmt.Sprintf("%v", *o.P) }
func (o O20) Same(p Obj) bool      { return o.P == p.(O20).P }
func (o O30) Same(p Obj) bool      { return o.P == p.(O30).P }
func (o O31) Same(p Obj) bool      { return o.P == p.(O31).P }
func (o O40) Same(p Obj) bool      { return o.P == p.(O40).P }
func (o O20) Nomenclature() string { return "" }
func (o O30) Nomenclature() string { return "" }
func (o O31) Nomenclature() string { return "" }
func (o O40) Nomenclature() string { return o.P.Nomenclature() }

// Errs are the package's sentinel errors (nil where the package has none).
type Errs struct {
	InvalidCVSSHeader, TooShortVector, InvalidMetricOrder, InvalidMetricValue, OutOfBoundsScore error
}

// Pkg is one version's package.
type Pkg struct {
	V      *spec.Version
	ID     int // 0..3
	Zero   func() Obj
	Parse  func(string) (Obj, error) // Obj is nil (interface nil) when the pointer is nil
	Rating func(float64) (string, error)
	Errs   Errs
	// AsInvalidMetric / AsMissing / AsDefinedN report whether err is the package's
	// typed error (by errors.As) and the abbreviation it carries.
	AsInvalidMetric func(error) (string, bool)
	AsMissing       func(error) (string, bool)
	AsDefinedN      func(error) (string, bool)
}

// Tamper overwrites the abbreviation carried by a typed error of any of the four packages (the
// field is exported, so a caller may do this): an error value that the package hands out more
// than once shows as a later error naming the wrong metric.
func Tamper(err error) bool {
	const mark = "~tampered~"
	done := false
	{
		var e *gocvss20.ErrInvalidMetric
		if errors.As(err, &e) && e != nil {
			e.Abv, done = mark, true
		}
	}
	{
		var e *gocvss30.ErrInvalidMetric
		if errors.As(err, &e) && e != nil {
			e.Abv, done = mark, true
		}
		var m *gocvss30.ErrMissing
		if errors.As(err, &m) && m != nil {
			m.Abv, done = mark, true
		}
		var d *gocvss30.ErrDefinedN
		if errors.As(err, &d) && d != nil {
			d.Abv, done = mark, true
		}
	}
	{
		var e *gocvss31.ErrInvalidMetric
		if errors.As(err, &e) && e != nil {
			e.Abv, done = mark, true
		}
		var m *gocvss31.ErrMissing
		if errors.As(err, &m) && m != nil {
			m.Abv, done = mark, true
		}
		var d *gocvss31.ErrDefinedN
		if errors.As(err, &d) && d != nil {
			d.Abv, done = mark, true
		}
	}
	{
		var e *gocvss40.ErrInvalidMetric
		if errors.As(err, &e) && e != nil {
			e.Abv, done = mark, true
		}
	}
	return done
}

var P20 = &Pkg{
	V: spec.V2, ID: 0,
	Zero: func() Obj { return O20{&gocvss20.CVSS20{}} },
	Parse: func(s string) (Obj, error) {
		o, e := gocvss20.ParseVector(s)
		if o == nil {
			return nil, e
		}
		return O20{o}, e
	},
	Errs: Errs{TooShortVector: gocvss20.ErrTooShortVector, InvalidMetricOrder: gocvss20.ErrInvalidMetricOrder, InvalidMetricValue: gocvss20.ErrInvalidMetricValue},
	AsInvalidMetric: func(err error) (string, bool) {
		var e *gocvss20.ErrInvalidMetric
		if errors.As(err, &e) {
			return e.Abv, true
		}
		return "", false
	},
}

var P30 = &Pkg{
	V: spec.V30, ID: 1,
	Zero: func() Obj { return O30{&gocvss30.CVSS30{}} },
	Parse: func(s string) (Obj, error) {
		o, e := gocvss30.ParseVector(s)
		if o == nil {
			return nil, e
		}
		return O30{o}, e
	},
	Rating: gocvss30.Rating,
	Errs:   Errs{InvalidCVSSHeader: gocvss30.ErrInvalidCVSSHeader, TooShortVector: gocvss30.ErrTooShortVector, InvalidMetricValue: gocvss30.ErrInvalidMetricValue, OutOfBoundsScore: gocvss30.ErrOutOfBoundsScore},
	AsInvalidMetric: func(err error) (string, bool) {
		var e *gocvss30.ErrInvalidMetric
		if errors.As(err, &e) {
			return e.Abv, true
		}
		return "", false
	},
	AsMissing: func(err error) (string, bool) {
		var e *gocvss30.ErrMissing
		if errors.As(err, &e) {
			return e.Abv, true
		}
		return "", false
	},
	AsDefinedN: func(err error) (string, bool) {
		var e *gocvss30.ErrDefinedN
		if errors.As(err, &e) {
			return e.Abv, true
		}
		return "", false
	},
}

var P31 = &Pkg{
	V: spec.V31, ID: 2,
	Zero: func() Obj { return O31{&gocvss31.CVSS31{}} },
	Parse: func(s string) (Obj, error) {
		o, e := gocvss31.ParseVector(s)
		if o == nil {
			return nil, e
		}
		return O31{o}, e
	},
	Rating: gocvss31.Rating,
	Errs:   Errs{InvalidCVSSHeader: gocvss31.ErrInvalidCVSSHeader, TooShortVector: gocvss31.ErrTooShortVector, InvalidMetricValue: gocvss31.ErrInvalidMetricValue, OutOfBoundsScore: gocvss31.ErrOutOfBoundsScore},
	AsInvalidMetric: func(err error) (string, bool) {
		var e *gocvss31.ErrInvalidMetric
		if errors.As(err, &e) {
			return e.Abv, true
		}
		return "", false
	},
	AsMissing: func(err error) (string, bool) {
		var e *gocvss31.ErrMissing
		if errors.As(err, &e) {
			return e.Abv, true
		}
		return "", false
	},
	AsDefinedN: func(err error) (string, bool) {
		var e *gocvss31.ErrDefinedN
		if errors.As(err, &e) {
			return e.Abv, true
		}
		return "", false
	},
}

var P40 = &Pkg{
	V: spec.V4, ID: 3,
	Zero: func() Obj { return O40{&gocvss40.CVSS40{}} },
	Parse: func(s string) (Obj, error) {
		o, e := gocvss40.ParseVector(s)
		if o == nil {
			return nil, e
		}
		return O40{o}, e
	},
	Rating: gocvss40.Rating,
	Errs:   Errs{InvalidCVSSHeader: gocvss40.ErrInvalidCVSSHeader, TooShortVector: gocvss40.ErrTooShortVector, InvalidMetricOrder: gocvss40.ErrInvalidMetricOrder, InvalidMetricValue: gocvss40.ErrInvalidMetricValue, OutOfBoundsScore: gocvss40.ErrOutOfBoundsScore},
	AsInvalidMetric: func(err error) (string, bool) {
		var e *gocvss40.ErrInvalidMetric
		if errors.As(err, &e) {
			return e.Abv, true
		}
		return "", false
	},
}

var Pkgs = []*Pkg{P20, P30, P31, P40}

// SafeParse calls the parser and converts a panic into panicked=true.
func (p *Pkg) SafeParse(s string) (o Obj, err error, panicked any) {
	defer func() {
		if r := recover(); r != nil {
			panicked = r
		}
	}()
	o, err = p.Parse(s)
	return
}

// Build creates an object holding the assignment through Set calls in
// specification order; every Set must succeed.
func (p *Pkg) Build(a spec.Assignment) (Obj, error) {
	o := p.Zero()
	for _, m := range p.V.Metrics {
		if err := o.Set(m.Abv, a[m.Abv]); err != nil {
			return nil, fmt.Errorf("Set(%s,%q): %w", m.Abv, a[m.Abv], err)
		}
	}
	return o, nil
}

// Read returns the assignment an object reports through Get.
func (p *Pkg) Read(o Obj) (spec.Assignment, error) {
	a := spec.Assignment{}
	for _, m := range p.V.Metrics {
		g, err := o.Get(m.Abv)
		if err != nil {
			return nil, fmt.Errorf("Get(%s): %w", m.Abv, err)
		}
		a[m.Abv] = g
	}
	return a, nil
}

// Safe runs f and converts a panic into an error.
func Safe(f func()) (err error) {
	defer func() {
		if r := recover(); r != nil {
			err = fmt.Errorf("panic: %v", r)
		}
	}()
	f()
	return nil
}
