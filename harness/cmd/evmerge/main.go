// evmerge merges the evidence parts written by the processes of one check run
// into /verif/evidence/<ID>.json (EVIDENCE.schema.json).
package main

import (
	"encoding/binary"
	"encoding/json"
	"flag"
	"fmt"
	"os"
	"path/filepath"
	"sort"

	"verifharness/ev"
)

func main() {
	dir := flag.String("dir", "/verif", "")
	prop := flag.String("prop", "", "")
	tier := flag.String("tier", "quick", "")
	seed := flag.Int64("seed", 0, "")
	wall := flag.Float64("wall", 0, "")
	findings := flag.String("findings", "", "KNOWN_FINDINGS.json")
	flag.Parse()
	pdir := filepath.Join(*dir, "evidence", ".parts", *prop)
	files, _ := filepath.Glob(filepath.Join(pdir, "*.json"))
	sort.Strings(files)
	if len(files) == 0 {
		fmt.Println("INCONCLUSIVE: no evidence parts were written")
		os.Exit(1)
	}
	var evals, exact int64
	classes := map[string]int64{}
	var samples []any
	seenSample := map[string]bool{}
	var hashes []uint64
	exhaustive := (*bool)(nil)
	violations := 0
	known := map[string]int64{}
	extra := map[string]any{}
	assumptions, inconcl := []string{}, []string{}
	seenAss := map[string]bool{}
	rule := ""
	phases := []any{}
	for _, f := range files {
		b, err := os.ReadFile(f)
		if err != nil {
			continue
		}
		var p ev.Part
		if err := json.Unmarshal(b, &p); err != nil {
			fmt.Println("INCONCLUSIVE: bad part", f, err)
			os.Exit(1)
		}
		evals += p.Evaluations
		exact += p.ExactNT
		for k, v := range p.Classes {
			classes[k] += v
		}
		if len(samples) < 60 {
			for _, sm := range p.Samples {
				b, _ := json.Marshal(sm)
				if !seenSample[string(b)] { // the side processes report the same fixed samples as the main one
					seenSample[string(b)] = true
					samples = append(samples, sm)
				}
			}
		}
		if p.Exhaustive != nil {
			if exhaustive == nil || !*p.Exhaustive {
				v := *p.Exhaustive
				exhaustive = &v
			}
		}
		violations += p.Violations
		for k, v := range p.Known {
			known[k] += v
		}
		for k, v := range p.Extra {
			extra[k] = v
		}
		for _, a := range p.Assumptions {
			if !seenAss[a] {
				seenAss[a] = true
				assumptions = append(assumptions, a)
			}
		}
		inconcl = append(inconcl, p.Inconclusive...)
		if p.Rule != "" {
			rule = p.Rule
		}
		phases = append(phases, map[string]any{"phase": p.Phase, "shard": p.Shard, "evaluations": p.Evaluations, "wall_s": p.WallS})
		if p.HashFile != "" {
			hb, err := os.ReadFile(p.HashFile)
			if err == nil {
				for i := 0; i+8 <= len(hb); i += 8 {
					hashes = append(hashes, binary.LittleEndian.Uint64(hb[i:]))
				}
			}
		}
	}
	sort.Slice(hashes, func(i, j int) bool { return hashes[i] < hashes[j] })
	distinct := int64(0)
	for i := range hashes {
		if i == 0 || hashes[i] != hashes[i-1] {
			distinct++
		}
	}
	cov := map[string]any{
		"evaluations":         evals,
		"distinct_nontrivial": exact + distinct,
		"rule":                rule,
		"samples":             samples,
		"class_distribution":  classes,
		"processes":           phases,
	}
	if exhaustive != nil {
		cov["exhaustive"] = *exhaustive
	}
	if len(known) > 0 {
		cov["known_finding_cases_excluded"] = known
	}
	for k, v := range extra {
		cov[k] = v
	}
	out := map[string]any{
		"property_id": *prop,
		"tier":        *tier,
		"seed":        *seed,
		"level":       "exploration",
		"coverage":    cov,
		"assumptions": assumptions,
		"wall_s":      *wall,
		"violations":  violations,
	}
	b, _ := json.MarshalIndent(out, "", " ")
	os.MkdirAll(filepath.Join(*dir, "evidence"), 0o755)
	if err := os.WriteFile(filepath.Join(*dir, "evidence", *prop+".json"), b, 0o644); err != nil {
		fmt.Println("INCONCLUSIVE: cannot write evidence:", err)
		os.Exit(1)
	}
	os.RemoveAll(pdir)
	fmt.Printf("evidence: %s evaluations=%d distinct_nontrivial=%d violations=%d\n", *prop, evals, exact+distinct, violations)
	// one KNOWN-FINDING line per listed finding whose cases were met (and excluded) in this run
	if *findings != "" && len(known) > 0 {
		for matcher, f := range ev.KnownMatchers(ev.Env{Dir: filepath.Dir(*findings)}, *prop) {
			if n := known[matcher]; n > 0 {
				fmt.Printf("KNOWN-FINDING: property=%s %s (%d cases excluded; finding %s)\n", *prop, f.Line, n, f.ID)
			}
		}
	}
	for _, s := range inconcl {
		fmt.Println("INCONCLUSIVE:", s)
	}
}
