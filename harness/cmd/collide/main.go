// collide writes gen/collisions.go: for every real abbreviation and value of the four CVSS versions and
// each of a dozen popular unkeyed 32-bit string hashes, one short alphanumeric string with the same hash.
// A dispatch on a hash of the token that never compares the token itself ("perfect hashing" checked
// only over the legal tokens) takes such a string for the token; no other generated string ever would
// (1 in 2^32). The search is a plain enumeration (about 2^34 candidates per hash); it is run once, by
// hand, and its output is committed:   go run ./cmd/collide > gen/collisions.go
package main

import (
	"fmt"
	"hash/adler32"
	"hash/crc32"
	"os"
	"runtime"
	"sort"
	"sync"
	"sync/atomic"

	"verifharness/spec"
)

type hashFn struct {
	name string
	f    func([]byte) uint32
}

var castagnoli = crc32.MakeTable(crc32.Castagnoli)

func fnv32a(b []byte) uint32 {
	h := uint32(2166136261)
	for _, c := range b {
		h ^= uint32(c)
		h *= 16777619
	}
	return h
}
func fnv32(b []byte) uint32 {
	h := uint32(2166136261)
	for _, c := range b {
		h *= 16777619
		h ^= uint32(c)
	}
	return h
}
func fnv64a(b []byte) uint64 {
	h := uint64(14695981039346656037)
	for _, c := range b {
		h ^= uint64(c)
		h *= 1099511628211
	}
	return h
}
func djb2(b []byte) uint32 {
	h := uint32(5381)
	for _, c := range b {
		h = h*33 + uint32(c)
	}
	return h
}
func djb2x(b []byte) uint32 {
	h := uint32(5381)
	for _, c := range b {
		h = h*33 ^ uint32(c)
	}
	return h
}
func sdbm(b []byte) uint32 {
	h := uint32(0)
	for _, c := range b {
		h = uint32(c) + (h << 6) + (h << 16) - h
	}
	return h
}
func java31(b []byte) uint32 {
	h := uint32(0)
	for _, c := range b {
		h = h*31 + uint32(c)
	}
	return h
}
func oaat(b []byte) uint32 {
	h := uint32(0)
	for _, c := range b {
		h += uint32(c)
		h += h << 10
		h ^= h >> 6
	}
	h += h << 3
	h ^= h >> 11
	h += h << 15
	return h
}
func murmur3(b []byte) uint32 {
	const c1, c2 = 0xcc9e2d51, 0x1b873593
	h := uint32(0)
	n := len(b) / 4
	for i := 0; i < n; i++ {
		k := uint32(b[4*i]) | uint32(b[4*i+1])<<8 | uint32(b[4*i+2])<<16 | uint32(b[4*i+3])<<24
		k *= c1
		k = k<<15 | k>>17
		k *= c2
		h ^= k
		h = h<<13 | h>>19
		h = h*5 + 0xe6546b64
	}
	var k uint32
	t := b[4*n:]
	switch len(t) {
	case 3:
		k ^= uint32(t[2]) << 16
		fallthrough
	case 2:
		k ^= uint32(t[1]) << 8
		fallthrough
	case 1:
		k ^= uint32(t[0])
		k *= c1
		k = k<<15 | k>>17
		k *= c2
		h ^= k
	}
	h ^= uint32(len(b))
	h ^= h >> 16
	h *= 0x85ebca6b
	h ^= h >> 13
	h *= 0xc2b2ae35
	h ^= h >> 16
	return h
}

var fns = []hashFn{
	{"fnv32a", fnv32a}, {"fnv32", fnv32},
	{"fnv64a-low32", func(b []byte) uint32 { return uint32(fnv64a(b)) }},
	{"fnv64a-fold", func(b []byte) uint32 { h := fnv64a(b); return uint32(h) ^ uint32(h>>32) }},
	{"crc32-ieee", crc32.ChecksumIEEE}, {"crc32-castagnoli", func(b []byte) uint32 { return crc32.Checksum(b, castagnoli) }},
	{"adler32", adler32.Checksum}, {"djb2", djb2}, {"djb2-xor", djb2x}, {"sdbm", sdbm}, {"java31", java31},
	{"jenkins-oaat", oaat}, {"murmur3-32", murmur3},
}

const alpha = "ABCDEFGHIJKLMNOPQRSTUVWXYZabcdefghijklmnopqrstuvwxyz0123456789"

func main() {
	seen := map[string]bool{}
	var tokens []string
	for _, v := range spec.Versions {
		for _, m := range v.Metrics {
			for _, t := range append([]string{m.Abv}, m.Vals...) {
				if !seen[t] {
					seen[t] = true
					tokens = append(tokens, t)
				}
			}
		}
	}
	sort.Strings(tokens)
	type hit struct{ hash, token, s string }
	var hits []hit
	for _, fn := range fns {
		want := map[uint32]string{}
		var filter [1 << 13]uint64 // 2^19 bits on the low bits of the hash
		for _, t := range tokens {
			h := fn.f([]byte(t))
			want[h] = t
			filter[(h&0x7ffff)>>6] |= 1 << (h & 63)
		}
		found := map[string]string{}
		var mu sync.Mutex
		var wg sync.WaitGroup
		workers := runtime.GOMAXPROCS(0)
		done := make(chan struct{})
		var once sync.Once
		var tried atomic.Int64
		const budget = 60_000_000_000 // candidates per hash: tokens that no 6- or 7-character string matches (adler32 of a short token) are given up
		// strings of 6 and 7 characters; worker w takes first characters w, w+workers, ...
		for w := 0; w < workers; w++ {
			wg.Add(1)
			go func(w int) {
				defer wg.Done()
				for _, L := range []int{6, 7} {
					buf := make([]byte, L)
					idx := make([]int, L)
					for c0 := w; c0 < len(alpha); c0 += workers {
						idx[0] = c0
						for i := 1; i < L; i++ {
							idx[i] = 0
						}
						for {
							select {
							case <-done:
								return
							default:
							}
							if tried.Add(62*62) > budget {
								return
							}
							// inner loop over the last two positions without the channel check
							for a := 0; a < len(alpha); a++ {
								for b := 0; b < len(alpha); b++ {
									idx[L-2], idx[L-1] = a, b
									for i := 0; i < L; i++ {
										buf[i] = alpha[idx[i]]
									}
									h := fn.f(buf)
									if filter[(h&0x7ffff)>>6]&(1<<(h&63)) != 0 {
										if t, ok := want[h]; ok && string(buf) != t {
											mu.Lock()
											if _, dup := found[t]; !dup {
												found[t] = string(buf)
												if len(found) == len(want) {
													once.Do(func() { close(done) })
												}
											}
											mu.Unlock()
										}
									}
								}
							}
							// advance positions 1..L-3
							k := L - 3
							for k >= 1 {
								idx[k]++
								if idx[k] < len(alpha) {
									break
								}
								idx[k] = 0
								k--
							}
							if k < 1 {
								break
							}
						}
					}
				}
			}(w)
		}
		wg.Wait()
		fmt.Fprintf(os.Stderr, "%s: %d of %d tokens\n", fn.name, len(found), len(want))
		for _, t := range tokens {
			if s, ok := found[t]; ok {
				hits = append(hits, hit{fn.name, t, s})
			}
		}
	}
	fmt.Println("// Code generated by cmd/collide; DO NOT EDIT.")
	fmt.Println()
	fmt.Println("package gen")
	fmt.Println()
	fmt.Println("// HashCollisions: for a popular unkeyed 32-bit string hash and a real abbreviation or value, a short")
	fmt.Println("// alphanumeric string with the same hash (see cmd/collide).")
	fmt.Println("var HashCollisions = []struct{ Hash, Token, S string }{")
	for _, h := range hits {
		fmt.Printf("\t{%q, %q, %q},\n", h.hash, h.token, h.s)
	}
	fmt.Println("}")
}
