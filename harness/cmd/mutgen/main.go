// mutgen lists systematic one-token mutations of the library's non-test Go files as JSON lines
// {file, start, end, old, new, kind, line}: comparison / arithmetic / bitwise operator replacements, integer
// and float literals nudged, shift amounts and masks changed by one, string literals of one to three
// characters changed, boolean literals and conditions negated, a `case` value list shortened.
// The runner (mutants/auto.py) applies each to a scratch copy, keeps those that compile and pass the pinned
// suite, and runs the checks against them.   usage: mutgen <repo-dir>
package main

import (
	"encoding/json"
	"fmt"
	"go/ast"
	"go/parser"
	"go/token"
	"os"
	"path/filepath"
	"strconv"
	"strings"
)

type mut struct {
	File  string `json:"file"`
	Start int    `json:"start"`
	End   int    `json:"end"`
	Old   string `json:"old"`
	New   string `json:"new"`
	Kind  string `json:"kind"`
	Line  int    `json:"line"`
	Func  string `json:"func"`
}

var swaps = map[token.Token][]string{
	token.LSS: {"<=", ">"}, token.LEQ: {"<", "=="}, token.GTR: {">=", "<"}, token.GEQ: {">", "=="},
	token.EQL: {"!="}, token.NEQ: {"=="},
	token.ADD: {"-"}, token.SUB: {"+"}, token.MUL: {"/"}, token.QUO: {"*"},
	token.AND: {"|"}, token.OR: {"&", "^"}, token.SHL: {">>"}, token.SHR: {"<<"},
	token.LAND: {"||"}, token.LOR: {"&&"},
}

func main() {
	root := os.Args[1]
	enc := json.NewEncoder(os.Stdout)
	for _, pkg := range []string{"20", "30", "31", "40"} {
		files, _ := filepath.Glob(filepath.Join(root, pkg, "*.go"))
		for _, f := range files {
			if strings.HasSuffix(f, "_test.go") {
				continue
			}
			src, err := os.ReadFile(f)
			if err != nil {
				continue
			}
			fset := token.NewFileSet()
			af, err := parser.ParseFile(fset, f, src, 0)
			if err != nil {
				fmt.Fprintln(os.Stderr, err)
				continue
			}
			rel, _ := filepath.Rel(root, f)
			emit := func(fn string, pos, end token.Pos, nw, kind string) {
				s, e := fset.Position(pos).Offset, fset.Position(end).Offset
				enc.Encode(mut{File: rel, Start: s, End: e, Old: string(src[s:e]), New: nw, Kind: kind, Line: fset.Position(pos).Line, Func: fn})
			}
			for _, d := range af.Decls {
				fd, ok := d.(*ast.FuncDecl)
				fn := ""
				if ok {
					fn = fd.Name.Name
				}
				ast.Inspect(d, func(n ast.Node) bool {
					switch x := n.(type) {
					case *ast.BinaryExpr:
						for _, alt := range swaps[x.Op] {
							emit(fn, x.OpPos, x.OpPos+token.Pos(len(x.Op.String())), alt, "op "+x.Op.String()+"->"+alt)
						}
					case *ast.BasicLit:
						switch x.Kind {
						case token.INT:
							if v, err := strconv.ParseInt(x.Value, 0, 64); err == nil {
								if strings.HasPrefix(x.Value, "0b") {
									// a mask: flip its lowest set bit's neighbour, drop its highest bit
									if v > 0 {
										hi := int64(1)
										for hi<<1 <= v {
											hi <<= 1
										}
										emit(fn, x.Pos(), x.End(), fmt.Sprintf("0b%08b", v&^hi), "mask drop high bit")
										emit(fn, x.Pos(), x.End(), fmt.Sprintf("0b%08b", (v|hi<<1)&0xff), "mask add bit above")
										emit(fn, x.Pos(), x.End(), fmt.Sprintf("0b%08b", v>>1), "mask shifted right")
									}
								} else {
									emit(fn, x.Pos(), x.End(), strconv.FormatInt(v+1, 10), "int+1")
									if v > 0 {
										emit(fn, x.Pos(), x.End(), strconv.FormatInt(v-1, 10), "int-1")
									}
								}
							}
						case token.FLOAT:
							if v, err := strconv.ParseFloat(x.Value, 64); err == nil {
								emit(fn, x.Pos(), x.End(), strconv.FormatFloat(v+0.01, 'g', -1, 64), "float+0.01")
								emit(fn, x.Pos(), x.End(), strconv.FormatFloat(v*1.1, 'g', 6, 64), "float*1.1")
							}
						case token.STRING:
							if s, err := strconv.Unquote(x.Value); err == nil && len(s) >= 1 && len(s) <= 3 {
								emit(fn, x.Pos(), x.End(), strconv.Quote(strings.ToLower(s)+"_"), "string changed")
							}
						}
					case *ast.IfStmt:
						if x.Cond != nil {
							s, e := fset.Position(x.Cond.Pos()).Offset, fset.Position(x.Cond.End()).Offset
							emit(fn, x.Cond.Pos(), x.Cond.End(), "!("+string(src[s:e])+")", "condition negated")
						}
					case *ast.CaseClause:
						if len(x.List) >= 2 {
							// drop the last value of the list
							emit(fn, x.List[len(x.List)-2].End(), x.List[len(x.List)-1].End(), "", "case value dropped")
						}
					case *ast.ReturnStmt:
						if len(x.Results) == 1 {
							if id, ok := x.Results[0].(*ast.Ident); ok && (id.Name == "true" || id.Name == "false") {
								emit(fn, id.Pos(), id.End(), map[string]string{"true": "false", "false": "true"}[id.Name], "bool flipped")
							}
						}
					}
					return true
				})
			}
		}
	}
}
