// Package gen holds the rapid generators shared by the property checks. Every
// random choice is a rapid draw, so cases shrink and replay.
package gen

import (
	"sort"
	"strings"

	"pgregory.net/rapid"

	"verifharness/spec"
)

// Valid is a generated well-formed vector together with the assignment it was
// built from (the oracle for C06/C08) and the way it was spelt.
type Valid struct {
	Ver     int               `json:"ver"` // index into spec.Versions
	S       string            `json:"s"`
	A       map[string]string `json:"assignment"`
	Written []string          `json:"written"` // abbreviations in written order
	Layout  string            `json:"layout"`
}

func pick(t *rapid.T, label string, xs []string) string {
	return xs[rapid.IntRange(0, len(xs)-1).Draw(t, label)]
}

// Version draws a version index.
func Version(t *rapid.T) int { return rapid.IntRange(0, 3).Draw(t, "version") }

// ValidVector builds a member of version v's language by construction.
func ValidVector(t *rapid.T, vi int) Valid {
	v := spec.Versions[vi]
	a := spec.Assignment{}
	var written []string
	layout := ""
	switch v.Name {
	case "2.0":
		for _, m := range v.Metrics[:6] {
			a[m.Abv] = pick(t, m.Abv, m.Vals)
			written = append(written, m.Abv)
		}
		lay := rapid.IntRange(0, 3).Draw(t, "layout") // 0 base, 1 +temporal, 2 +env, 3 both
		layout = []string{"base", "base+temporal", "base+env", "base+temporal+env"}[lay]
		group := func(from, to int, present bool) {
			mode := 0
			if present {
				mode = rapid.IntRange(0, 5).Draw(t, "groupmode") // 0: all ND, 1: exactly one defined, else free
			}
			one := -1
			if mode == 1 {
				one = rapid.IntRange(from, to-1).Draw(t, "one")
			}
			for i := from; i < to; i++ {
				m := v.Metrics[i]
				switch {
				case !present, mode == 0:
					a[m.Abv] = "ND"
				case mode == 1:
					if i == one {
						a[m.Abv] = pick(t, m.Abv, m.Vals[1:])
					} else {
						a[m.Abv] = "ND"
					}
				default:
					a[m.Abv] = pick(t, m.Abv, m.Vals)
				}
				if present {
					written = append(written, m.Abv)
				}
			}
		}
		group(6, 9, lay == 1 || lay == 3)
		group(9, 14, lay == 2 || lay == 3)
	default:
		for _, m := range v.Metrics {
			if m.Mandatory {
				a[m.Abv] = pick(t, m.Abv, m.Vals)
				written = append(written, m.Abv)
			}
		}
		profile := rapid.IntRange(0, 9).Draw(t, "profile") // 0: no optional, 1: all optional defined, 2: all explicit X, else mixed
		for _, m := range v.Metrics {
			if m.Mandatory {
				continue
			}
			mode := 0 // 0 omit, 1 explicit X, 2 defined
			switch profile {
			case 0:
				mode = 0
			case 1:
				mode = 2
			case 2:
				mode = 1
			default:
				mode = []int{0, 0, 0, 1, 2, 2, 2}[rapid.IntRange(0, 6).Draw(t, "optmode")]
			}
			switch mode {
			case 0:
				a[m.Abv] = v.ND
			case 1:
				a[m.Abv] = v.ND
				written = append(written, m.Abv)
			case 2:
				a[m.Abv] = pick(t, m.Abv, m.Vals[1:])
				written = append(written, m.Abv)
			}
		}
		layout = "spec-order"
		if v.Name != "4.0" && rapid.IntRange(0, 3).Draw(t, "shuffle") > 0 {
			written = rapid.Permutation(written).Draw(t, "perm")
			layout = "shuffled"
		}
	}
	return Valid{Ver: vi, S: spec.Spell(v, a, written), A: a, Written: written, Layout: layout}
}

// pools for mutation -------------------------------------------------------

var allAbvs, allVals []string

// coreAbvs / coreVals: the real tokens and their case variants plus a few classic malformed ones; the
// random mutation operators draw half of their replacements from these so that "another metric's
// legal value" stays frequent, the other half from the complete pools with all disguises.
var coreAbvs, coreVals []string
var headers = []string{"", "CVSS:3.0/", "CVSS:3.1/", "CVSS:4.0/", "CVSS:2.0/", "CVSS:3.0", "CVSS:3.1", "CVSS:4.0", "cvss:3.1/", "cvss:4.0/", "cvss:3.0/", "Cvss:3.1/", "CVSS:3./", "CVSS:3/", "CVSS:4/", "CVSS:4.00/", "CVSS:3.10/", "CVSS:3.1//", "CVSS:4.0//", "CVSS:3.1/CVSS:3.1/", "CVSS:4.0/CVSS:4.0/", " CVSS:3.1/", "CVSS:4.1/", "CVSS:3.2/", "CVSS:5.0/", "CVSS:4.0:", "CVSS;3.1/"}

const alphabet = "/:.AaCcDdEeFfGgHhIiLlMmNnOoPpRrSsTtUuVvWwXxYy0134 \t\n\x00\xff"

// disguises of a real token t: strings a sloppy comparison could take for t -
// NUL bytes around it, junk followed by NUL padding up to 4 and 8 bytes (a key packed into a 32- or
// 64-bit integer loses what is shifted out), the high bit set on the first byte, the token doubled,
// separators glued on, 256 more bytes (a length kept in 8 bits), and one character replaced by a
// multi-byte character whose code point ends in the same byte (a rune truncated to a byte).
// Disguises exposes disguises (C09: offered right after the real token has been accepted).
// The exported list also has the token followed by 65,536 bytes (a length kept in 16 bits, or a key built from the
// first bytes and the low half of the length); these stay out of the pools, whose every member is substituted at
// every position of whole vectors.
func Disguises(a string) []string {
	if a == "" {
		return nil
	}
	return append(disguises(a), a+strings.Repeat("\x00", 65536), a+strings.Repeat("Q", 65536))
}

func disguises(a string) []string {
	if a == "" {
		return nil
	}
	pad := func(n int) string {
		if n < len(a) {
			return a
		}
		return "Q" + strings.Repeat("\x00", n-len(a)) + a
	}
	out := []string{"\x00" + a, "\x00\x00" + a, a + "\x00", a + "\x00\x00", pad(4), pad(8), string([]byte{a[0] | 0x80}) + a[1:], a + a, a + "/", "/" + a, a + ":", ":" + a,
		a + strings.Repeat("\x00", 256), a + strings.Repeat("Q", 256), a + strings.Repeat(a, 256/len(a))}
	// two neighbouring bytes changed together so that a key packed with fewer than 8 bits per character
	// (k = k<<7 + c, <<6, <<5) comes out the same: one unit moved between a character and the next
	for pos := 0; pos+1 < len(a); pos++ {
		for _, w := range []int{32, 64, 128} {
			if hi, lo := int(a[pos])-1, int(a[pos+1])+w; hi >= 0 && lo <= 255 {
				out = append(out, a[:pos]+string([]byte{byte(hi), byte(lo)})+a[pos+2:])
			}
			if hi, lo := int(a[pos])+1, int(a[pos+1])-w; hi <= 255 && lo >= 0 {
				out = append(out, a[:pos]+string([]byte{byte(hi), byte(lo)})+a[pos+2:])
			}
		}
	}
	// same length, one character replaced (a key built from a prefix or a suffix of the token)
	for pos := 0; pos < len(a); pos++ {
		for _, c := range []byte{'X', 'Q', 'n', 0, '.'} {
			if a[pos] != c {
				out = append(out, a[:pos]+string(c)+a[pos+1:])
			}
		}
	}
	for _, pos := range []int{0, len(a) - 1} {
		for _, d := range []rune{0x100, 0x400, 0x2100, 0x10000} {
			out = append(out, a[:pos]+string(rune(a[pos])+d)+a[pos+1:])
		}
		if pos == len(a)-1 {
			break
		}
	}
	return out
}

func init() {
	seenA, seenV := map[string]bool{}, map[string]bool{}
	addA := func(x string) {
		if !seenA[x] {
			seenA[x] = true
			allAbvs = append(allAbvs, x)
		}
	}
	addV := func(x string) {
		if !seenV[x] {
			seenV[x] = true
			allVals = append(allVals, x)
		}
	}
	for _, v := range spec.Versions {
		for _, m := range v.Metrics {
			for _, x := range []string{m.Abv, strings.ToLower(m.Abv), strings.ToUpper(m.Abv)} {
				addA(x)
			}
			for _, val := range m.Vals {
				for _, x := range []string{val, strings.ToLower(val), strings.ToUpper(val)} {
					addV(x)
				}
			}
		}
	}
	for _, x := range []string{"", "ZZ", "A V", "AV ", " AV", "M", "MA:", "AVX", "CVSS", "é"} {
		addA(x)
	}
	for _, x := range []string{"", " ", "NN", "N ", " N", "ND ", "Q", "0", "Né", "N/", "CLEAR", "clear", "Cle", "Reds"} {
		addV(x)
	}
	coreAbvs, coreVals = append([]string{}, allAbvs...), append([]string{}, allVals...)
	seenReal := map[string]bool{}
	for _, v := range spec.Versions {
		for _, m := range v.Metrics {
			if !seenReal["A"+m.Abv] {
				seenReal["A"+m.Abv] = true
				for _, x := range disguises(m.Abv) {
					addA(x)
				}
				// the Modified prefix put on / taken off (a Set that strips "M" and dispatches on the base name)
				addA("M" + m.Abv)
				addA("MM" + m.Abv)
				for _, pc := range []string{".", "-", ",", ";", "0", "9"} {
					addA(pc + m.Abv)
					addA(m.Abv + pc)
				}
				if strings.HasPrefix(m.Abv, "M") && len(m.Abv) > 1 {
					addA(m.Abv[1:])
				}
			}
			for _, val := range m.Vals {
				if !seenReal["V"+val] {
					seenReal["V"+val] = true
					for _, x := range disguises(val) {
						addV(x)
					}
				}
			}
			// the value list itself offered as a value: neighbours and the whole list joined by a separator
			// (a table kept as one delimited string and searched by substring)
			for _, sep := range []string{"|", ",", " ", ";", "", "\x00", "+", "\n"} {
				for i := 0; i+1 < len(m.Vals); i++ {
					addV(m.Vals[i] + sep + m.Vals[i+1])
				}
				addV(strings.Join(m.Vals, sep))
				addV(sep + m.Vals[0])
				addV(m.Vals[len(m.Vals)-1] + sep)
			}
		}
	}
	// strings that collide with a real token under a popular unkeyed 32-bit hash (gen/collisions.go, found by
	// cmd/collide), and the textbook collisions of the two polynomial hashes (h*31+c, h*33+c): a dispatch on the
	// hash of the token that never compares the token itself takes them for the token
	isAbv, isVal := map[string]bool{}, map[string]bool{}
	for _, v := range spec.Versions {
		for _, m := range v.Metrics {
			isAbv[m.Abv] = true
			for _, val := range m.Vals {
				isVal[val] = true
			}
		}
	}
	addColl := func(tok, s string) {
		if isAbv[tok] {
			addA(s)
		}
		if isVal[tok] {
			addV(s)
		}
	}
	for _, c := range HashCollisions {
		addColl(c.Token, c.S)
	}
	toks := make([]string, 0, 80)
	for tok := range mergeKeys(isAbv, isVal) {
		toks = append(toks, tok)
	}
	sort.Strings(toks) // never depend on map order: the pools must be the same in every run
	for _, tok := range toks {
		if len(tok) >= 2 {
			for _, d := range []byte{31, 33} {
				if tok[1] > d+32 {
					addColl(tok, string([]byte{tok[0] + 1, tok[1] - d})+tok[2:])
				}
			}
		}
	}
	// long names of the values in the specification texts and calculators: the most
	// plausible strings for a widened value list to accept
	for _, x := range []string{"HIGH", "LOW", "MEDIUM", "NONE", "CRITICAL", "High", "Low", "Medium", "None", "NETWORK", "ADJACENT", "ADJACENT_NETWORK", "LOCAL", "PHYSICAL",
		"REQUIRED", "CHANGED", "UNCHANGED", "NOT_DEFINED", "NotDefined", "PROOF_OF_CONCEPT", "FUNCTIONAL", "UNPROVEN", "UNREPORTED", "OFFICIAL_FIX", "TEMPORARY_FIX",
		"WORKAROUND", "UNAVAILABLE", "UNKNOWN", "REASONABLE", "UNCONFIRMED", "UNCORROBORATED", "CONFIRMED", "ATTACKED", "SAFETY", "Safety", "PRESENT", "NEGLIGIBLE",
		"DIFFUSE", "CONCENTRATED", "AUTOMATIC", "USER", "IRRECOVERABLE", "PARTIAL", "COMPLETE", "SINGLE", "MULTIPLE", "PASSIVE", "ACTIVE", "YES", "NO", "WHITE", "White",
		"LOW_MEDIUM", "MEDIUM_HIGH"} {
		addV(x)
	}
}

// mergeKeys returns the union of the key sets in a deterministic order (as a map from a sorted walk).
func mergeKeys(a, b map[string]bool) map[string]bool {
	out := map[string]bool{}
	for k := range a {
		out[k] = true
	}
	for k := range b {
		out[k] = true
	}
	return out
}

// poolPick draws from the core pool half of the time and from the complete pool otherwise.
func poolPick(t *rapid.T, label string, core, all []string) string {
	if rapid.IntRange(0, 1).Draw(t, label+"-pool") == 0 {
		return pick(t, label, core)
	}
	return pick(t, label, all)
}

// AllAbvs / AllVals expose the pools (C09).
func AllAbvs() []string { return allAbvs }
func AllVals() []string { return allVals }

type vec struct {
	header string
	elems  []string
}

func split(vi int, s string) vec {
	h := spec.Versions[vi].Header
	body := strings.TrimPrefix(s, h)
	return vec{header: h, elems: strings.Split(body, "/")}
}
func (x vec) join() string { return x.header + strings.Join(x.elems, "/") }

// Wrappers are matched decorations a lenient parser might strip: brackets, quotes, whitespace,
// the NVD way of printing v2 vectors in parentheses, markup.
var Wrappers = [][2]string{{"(", ")"}, {"[", "]"}, {"{", "}"}, {"<", ">"}, {"\"", "\""}, {"'", "'"}, {"`", "`"}, {" ", " "}, {"\t", "\n"},
	{"\n", "\n"}, {"\r\n", "\r\n"}, {"((", "))"}, {"( ", " )"}, {"\ufeff", ""}, {"", "\x00"}, {"<b>", "</b>"}, {"CVSS:", ""}, {"vector=", ""}, {"", ";"}, {"", ","}}

// MutOps lists the mutation operators by name (for labels / evidence).
var MutOps = []string{"byte-delete", "byte-insert", "byte-replace", "truncate", "append", "prepend",
	"elem-delete", "elem-duplicate", "elem-swap-adjacent", "elem-move", "abv-replace", "val-replace", "colon-shape",
	"empty-element", "header-replace", "append-vector", "case-flip", "elem-insert-foreign", "long-insert", "wrap", "block-move"}

// Mutate applies 1..3 edits to a valid vector and returns the result with the
// operator names. The result may or may not still be in the language - the
// oracle decides.
func Mutate(t *rapid.T, base Valid) (string, []string) {
	n := []int{1, 1, 1, 1, 2, 2, 3}[rapid.IntRange(0, 6).Draw(t, "nedits")]
	s := base.S
	var ops []string
	for k := 0; k < n; k++ {
		op := MutOps[rapid.IntRange(0, len(MutOps)-1).Draw(t, "op")]
		s = apply(t, base.Ver, s, op)
		ops = append(ops, op)
	}
	return s, ops
}

func apply(t *rapid.T, vi int, s string, op string) string {
	pos := func(n int) int {
		if n <= 0 {
			return 0
		}
		return rapid.IntRange(0, n-1).Draw(t, "pos")
	}
	ch := func() string { return string(alphabet[rapid.IntRange(0, len(alphabet)-1).Draw(t, "ch")]) }
	switch op {
	case "byte-delete":
		if len(s) == 0 {
			return s
		}
		i := pos(len(s))
		return s[:i] + s[i+1:]
	case "byte-insert":
		i := pos(len(s) + 1)
		return s[:i] + ch() + s[i:]
	case "byte-replace":
		if len(s) == 0 {
			return s
		}
		i := pos(len(s))
		return s[:i] + ch() + s[i+1:]
	case "case-flip":
		if len(s) == 0 {
			return s
		}
		i := pos(len(s))
		c := s[i]
		switch {
		case c >= 'a' && c <= 'z':
			c -= 32
		case c >= 'A' && c <= 'Z':
			c += 32
		}
		return s[:i] + string(c) + s[i+1:]
	case "truncate":
		return s[:pos(len(s)+1)]
	case "append":
		return s + pick(t, "suffix", []string{"/", " ", "\n", "\t", "\x00", ":", "//", "/ ", "/AV:N", "/E:X", "/U:X", "/AR:ND", "/ZZ:N", "/AR:ND/", "X", "/MA:X/"})
	case "prepend":
		return pick(t, "prefix", []string{"/", " ", "\n", "\t", "\x00", "CVSS:3.1/", "CVSS:4.0/", "CVSS:3.0/", "\ufeff", "AV:N/"}) + s
	case "header-replace":
		h := spec.Versions[vi].Header
		return pick(t, "header", headers) + strings.TrimPrefix(s, h)
	case "wrap":
		w := Wrappers[rapid.IntRange(0, len(Wrappers)-1).Draw(t, "wrapper")]
		return w[0] + s + w[1]
	case "long-insert":
		// a long run (lengths around 2^8 and 2^16: counters that wrap) of one chunk at some position
		n := []int{200, 255, 256, 257, 300, 1000, 65535, 65536, 65537}[rapid.IntRange(0, 8).Draw(t, "len")]
		chunk := pick(t, "chunk", []string{"X", "/", ":", "/E:X", "/AV:N", " ", "\x00", "N"})
		i := pos(len(s) + 1)
		return s[:i] + strings.Repeat(chunk, (n+len(chunk)-1)/len(chunk))[:n] + s[i:]
	case "append-vector":
		other := ValidVector(t, rapid.IntRange(0, 3).Draw(t, "otherver"))
		sep := pick(t, "sep", []string{"/", "", " ", ",", "\n"})
		return s + sep + other.S
	}
	x := split(vi, s)
	n := len(x.elems)
	if n == 0 {
		return s
	}
	i := pos(n)
	switch op {
	case "elem-delete":
		x.elems = append(append([]string{}, x.elems[:i]...), x.elems[i+1:]...)
	case "elem-duplicate":
		j := pos(n + 1)
		el := x.elems[i]
		x.elems = append(append(append([]string{}, x.elems[:j]...), el), x.elems[j:]...)
	case "elem-swap-adjacent":
		if n < 2 {
			return s
		}
		if i == n-1 {
			i--
		}
		x.elems[i], x.elems[i+1] = x.elems[i+1], x.elems[i]
	case "elem-move":
		el := x.elems[i]
		rest := append(append([]string{}, x.elems[:i]...), x.elems[i+1:]...)
		j := pos(len(rest) + 1)
		x.elems = append(append(append([]string{}, rest[:j]...), el), rest[j:]...)
	case "block-move":
		if n < 3 {
			return s
		}
		j := i + 1 + pos(n-i)
		if j > n {
			j = n
		}
		block := append([]string{}, x.elems[i:j]...)
		rest := append(append([]string{}, x.elems[:i]...), x.elems[j:]...)
		k := pos(len(rest) + 1)
		x.elems = append(append(append([]string{}, rest[:k]...), block...), rest[k:]...)
	case "abv-replace":
		_, val, _ := strings.Cut(x.elems[i], ":")
		x.elems[i] = poolPick(t, "abv", coreAbvs, allAbvs) + ":" + val
	case "val-replace":
		abv, _, _ := strings.Cut(x.elems[i], ":")
		x.elems[i] = abv + ":" + poolPick(t, "val", coreVals, allVals)
	case "colon-shape":
		abv, val, _ := strings.Cut(x.elems[i], ":")
		x.elems[i] = []string{abv, abv + ":", ":" + val, abv + "::" + val, abv + ":" + val + ":" + val, abv + val, abv + ";" + val, abv + ": " + val, abv + " :" + val}[rapid.IntRange(0, 8).Draw(t, "shape")]
	case "empty-element":
		j := pos(n + 1)
		x.elems = append(append(append([]string{}, x.elems[:j]...), ""), x.elems[j:]...)
	case "elem-insert-foreign":
		ov := spec.Versions[rapid.IntRange(0, 3).Draw(t, "fver")]
		m := ov.Metrics[rapid.IntRange(0, len(ov.Metrics)-1).Draw(t, "fmetric")]
		el := m.Abv + ":" + pick(t, "fval", m.Vals)
		j := pos(n + 1)
		x.elems = append(append(append([]string{}, x.elems[:j]...), el), x.elems[j:]...)
	}
	return x.join()
}

// Soup joins random tokens of all versions.
func Soup(t *rapid.T) string {
	n := rapid.IntRange(0, 30).Draw(t, "ntok")
	var b strings.Builder
	for i := 0; i < n; i++ {
		switch rapid.IntRange(0, 7).Draw(t, "tok") {
		case 0:
			b.WriteString(pick(t, "hdr", headers))
		case 1:
			b.WriteString("/")
		case 2:
			b.WriteString(":")
		case 3, 4, 5:
			v := spec.Versions[rapid.IntRange(0, 3).Draw(t, "sv")]
			m := v.Metrics[rapid.IntRange(0, len(v.Metrics)-1).Draw(t, "sm")]
			b.WriteString(m.Abv + ":" + pick(t, "sval", m.Vals))
			if rapid.Bool().Draw(t, "slash") {
				b.WriteString("/")
			}
		case 6:
			b.WriteString(pick(t, "abv", allAbvs))
		case 7:
			b.WriteString(pick(t, "val", allVals))
		}
	}
	return b.String()
}

// Raw draws arbitrary bytes (not necessarily UTF-8).
func Raw(t *rapid.T) string {
	if rapid.Bool().Draw(t, "utf8") {
		return rapid.String().Draw(t, "str")
	}
	return string(rapid.SliceOfN(rapid.Byte(), 0, 80).Draw(t, "bytes"))
}

// Str is a generated string with its provenance.
type Str struct {
	S      BStr     `json:"s"`
	Source string   `json:"source"` // valid | mutant | soup | raw
	Base   *Valid   `json:"base,omitempty"`
	Ops    []string `json:"ops,omitempty"`
}

// AnyString mixes the four string sources 30/50/10/10.
func AnyString(t *rapid.T) Str {
	r := rapid.IntRange(0, 9).Draw(t, "source")
	switch {
	case r < 3:
		v := ValidVector(t, Version(t))
		return Str{S: BStr(v.S), Source: "valid", Base: &v}
	case r < 8:
		v := ValidVector(t, Version(t))
		s, ops := Mutate(t, v)
		return Str{S: BStr(s), Source: "mutant", Base: &v, Ops: ops}
	case r < 9:
		return Str{S: BStr(Soup(t)), Source: "soup"}
	}
	return Str{S: BStr(Raw(t)), Source: "raw"}
}

// Object draws a full assignment of version vi with corner profiles.
func Object(t *rapid.T, vi int) (spec.Assignment, string) {
	v := spec.Versions[vi]
	profiles := []string{"uniform", "uniform", "uniform", "first-values", "last-values", "base-impacts-none", "effective-impacts-none", "one-optional", "all-modified", "no-modified", "sparse"}
	p := pick(t, "profile", profiles)
	a := spec.Assignment{}
	for _, m := range v.Metrics {
		switch p {
		case "first-values":
			a[m.Abv] = m.Vals[0]
		case "last-values":
			a[m.Abv] = m.Vals[len(m.Vals)-1]
		case "one-optional", "sparse":
			if m.Mandatory {
				a[m.Abv] = pick(t, m.Abv, m.Vals)
			} else {
				a[m.Abv] = v.ND
			}
		default:
			a[m.Abv] = pick(t, m.Abv, m.Vals)
		}
	}
	opt := v.Optional()
	impacts := map[string][]string{"2.0": {"C", "I", "A"}, "3.0": {"C", "I", "A"}, "3.1": {"C", "I", "A"}, "4.0": {"VC", "VI", "VA", "SC", "SI", "SA"}}[v.Name]
	mod := spec.ModifiedOf(v)
	switch p {
	case "one-optional":
		m := opt[rapid.IntRange(0, len(opt)-1).Draw(t, "theone")]
		a[m.Abv] = pick(t, "v", m.Vals[1:])
	case "sparse":
		k := rapid.IntRange(0, 3).Draw(t, "k")
		for i := 0; i < k; i++ {
			m := opt[rapid.IntRange(0, len(opt)-1).Draw(t, "sp")]
			a[m.Abv] = pick(t, "v", m.Vals)
		}
	case "base-impacts-none":
		for _, k := range impacts {
			a[k] = "N"
		}
	case "effective-impacts-none":
		for _, k := range impacts {
			if mk, ok := mod[k]; ok {
				switch rapid.IntRange(0, 2).Draw(t, "how") {
				case 0:
					a[k], a[mk] = "N", v.ND
				case 1:
					a[mk] = "N"
				case 2:
					a[k], a[mk] = "N", "N"
				}
			} else {
				a[k] = "N"
			}
		}
	case "all-modified":
		for _, b := range spec.OverridableOrder(v) { // fixed order: draws must not depend on map iteration
			m := v.Metric(mod[b])
			a[m.Abv] = pick(t, m.Abv, m.Vals[1:])
		}
	case "no-modified":
		for _, b := range spec.OverridableOrder(v) {
			a[mod[b]] = v.ND
		}
	}
	return a, p
}

// Op is one step of an operation history.
type Op struct {
	Kind string `json:"kind"` // set | get | vector | parse | scores | copy
	Abv  BStr   `json:"abv,omitempty"`
	Val  BStr   `json:"val,omitempty"`
	S    BStr   `json:"s,omitempty"`
}

// History is a generated operation sequence on one object of one version.
type History struct {
	Ver   int    `json:"ver"`
	Start string `json:"start"` // "" = zero value, else a valid vector to parse
	Ops   []Op   `json:"ops"`
}

// SetOp draws one Set call: 70% known/legal, 20% known/illegal, 10% unknown metric.
func SetOp(t *rapid.T, vi int) Op {
	v := spec.Versions[vi]
	r := rapid.IntRange(0, 9).Draw(t, "setkind")
	m := v.Metrics[rapid.IntRange(0, len(v.Metrics)-1).Draw(t, "metric")]
	switch {
	case r < 7:
		return Op{Kind: "set", Abv: BStr(m.Abv), Val: BStr(pick(t, "val", m.Vals))}
	case r < 9:
		return Op{Kind: "set", Abv: BStr(m.Abv), Val: BStr(pick(t, "badval", allVals))}
	}
	return Op{Kind: "set", Abv: BStr(pick(t, "badabv", allAbvs)), Val: BStr(pick(t, "val", m.Vals))}
}

// Hist draws a history of up to max steps.
func Hist(t *rapid.T, vi int, max int) History {
	h := History{Ver: vi}
	if rapid.IntRange(0, 2).Draw(t, "startmode") == 0 {
		h.Start = ValidVector(t, vi).S
	}
	n := rapid.IntRange(1, max).Draw(t, "nops")
	for i := 0; i < n; i++ {
		h.Ops = append(h.Ops, SetOp(t, vi))
	}
	return h
}

// Alphabet exposes the mutation alphabet.
func Alphabet() string { return alphabet }

// OneEditNeighbourhood enumerates, deterministically and completely, every
// string at one structural edit from s: every byte deleted, every byte replaced
// by / every position receiving each alphabet byte, every truncation, and for
// the '/'-separated elements: each deleted, each duplicated at every position,
// each adjacent pair swapped, each moved to every position, an empty element at
// every position.
func OneEditNeighbourhood(vi int, s string) []string {
	var out []string
	for i := 0; i < len(s); i++ {
		out = append(out, s[:i]+s[i+1:], s[:i])
		for k := 0; k < len(alphabet); k++ {
			if alphabet[k] != s[i] {
				out = append(out, s[:i]+alphabet[k:k+1]+s[i+1:])
			}
		}
	}
	for i := 0; i <= len(s); i++ {
		for k := 0; k < len(alphabet); k++ {
			out = append(out, s[:i]+alphabet[k:k+1]+s[i:])
		}
	}
	x := split(vi, s)
	n := len(x.elems)
	ins := func(xs []string, j int, el string) []string {
		o := append([]string{}, xs[:j]...)
		o = append(o, el)
		return append(o, xs[j:]...)
	}
	rm := func(xs []string, i int) []string {
		o := append([]string{}, xs[:i]...)
		return append(o, xs[i+1:]...)
	}
	for i := 0; i < n; i++ {
		out = append(out, vec{x.header, rm(x.elems, i)}.join())
		for j := 0; j <= n; j++ {
			out = append(out, vec{x.header, ins(x.elems, j, x.elems[i])}.join())
			if j < n && j != i {
				out = append(out, vec{x.header, ins(rm(x.elems, i), j, x.elems[i])}.join())
			}
		}
		if i+1 < n {
			e := append([]string{}, x.elems...)
			e[i], e[i+1] = e[i+1], e[i]
			out = append(out, vec{x.header, e}.join())
		}
	}
	for j := 0; j <= n; j++ {
		out = append(out, vec{x.header, ins(x.elems, j, "")}.join())
	}
	// whole blocks of consecutive elements (a metric group) moved to, or repeated at, every other position:
	// a parser that recognises groups by their first metric may take them in any order
	for i := 0; i < n; i++ {
		for j := i + 2; j <= n; j++ {
			block := x.elems[i:j]
			rest := append(append([]string{}, x.elems[:i]...), x.elems[j:]...)
			for k := 0; k <= len(rest); k++ {
				if k == i {
					continue
				}
				moved := append(append(append([]string{}, rest[:k]...), block...), rest[k:]...)
				out = append(out, vec{x.header, moved}.join())
			}
			for _, k := range []int{0, i, j, n} {
				dup := append(append(append([]string{}, x.elems[:k]...), block...), x.elems[k:]...)
				out = append(out, vec{x.header, dup}.join())
			}
		}
	}
	for _, h := range headers {
		out = append(out, h+strings.TrimPrefix(s, x.header))
	}
	for _, w := range Wrappers {
		out = append(out, w[0]+s+w[1])
		if x.header != "" { // decoration between header and body too
			out = append(out, x.header+w[0]+strings.TrimPrefix(s, x.header)+w[1])
		}
	}
	return out
}

// Repeats enumerates s with one element written k more times, for the counts at which a counter of 8 or 16 bits
// wraps: every element for the small counts, the first base and the first optional element for the large ones
// (each such string is several hundred kilobytes long); the copies are appended, or inserted right after the element.
func Repeats(vi int, s string) []string {
	x := split(vi, s)
	var out []string
	nb := len(spec.Versions[vi].Base())
	for i, el := range x.elems {
		counts := []int{254, 255, 256, 257, 511, 512}
		if i == 0 || i == nb {
			counts = append(counts, 65534, 65535, 65536, 65537)
		}
		for _, k := range counts {
			tail := strings.Repeat("/"+el, k)
			out = append(out, s+tail)
			if k <= 512 {
				e := append([]string{}, x.elems[:i+1]...)
				out = append(out, x.header+strings.Join(e, "/")+tail+"/"+strings.Join(x.elems[i+1:], "/"))
			}
		}
	}
	return out
}

// PoolSubstitutions enumerates s with, at every element in turn, the value replaced by every pooled
// value and the abbreviation by every pooled abbreviation (real tokens of all versions, case variants
// and all disguises).
func PoolSubstitutions(vi int, s string) []string {
	x := split(vi, s)
	var out []string
	for i, el := range x.elems {
		abv, val, _ := strings.Cut(el, ":")
		e := append([]string{}, x.elems...)
		for _, v := range allVals {
			if v != val {
				e[i] = abv + ":" + v
				out = append(out, vec{x.header, e}.join())
			}
		}
		for _, a := range allAbvs {
			if a != abv {
				e[i] = a + ":" + val
				out = append(out, vec{x.header, e}.join())
			}
		}
	}
	return out
}

// Representatives returns a fixed set of valid vectors per version covering
// every layout (v2), base-only / all-defined / all-explicit-X (v3, v4).
func Representatives() []Valid {
	var out []Valid
	add := func(vi int, a spec.Assignment, written []string, layout string) {
		v := spec.Versions[vi]
		out = append(out, Valid{Ver: vi, S: spec.Spell(v, a, written), A: a, Written: written, Layout: layout})
	}
	for vi, v := range spec.Versions {
		last, first := spec.Assignment{}, spec.Assignment{}
		var all, base []string
		for _, m := range v.Metrics {
			last[m.Abv] = m.Vals[len(m.Vals)-1]
			first[m.Abv] = m.Vals[0]
			all = append(all, m.Abv)
			if m.Mandatory {
				base = append(base, m.Abv)
			}
		}
		if v.Name == "2.0" {
			add(vi, withND(v, last, 6, 14), all[:6], "base")
			add(vi, withND(v, last, 9, 14), all[:9], "base+temporal")
			add(vi, withND(v, last, 6, 9), append(append([]string{}, all[:6]...), all[9:]...), "base+env")
			add(vi, last, all, "base+temporal+env")
			add(vi, first, all, "base+temporal+env")
			continue
		}
		add(vi, withND(v, last, len(base), len(all)), base, "spec-order")
		add(vi, last, all, "spec-order")
		add(vi, first, all, "spec-order") // every optional metric written as explicit X
		if v.Name != "4.0" {
			rev := append([]string{}, all...)
			for i, j := 0, len(rev)-1; i < j; i, j = i+1, j-1 {
				rev[i], rev[j] = rev[j], rev[i]
			}
			add(vi, last, rev, "shuffled")
		}
	}
	return out
}

func withND(v *spec.Version, a spec.Assignment, from, to int) spec.Assignment {
	b := a.Clone()
	for _, m := range v.Metrics[from:to] {
		b[m.Abv] = v.ND
	}
	return b
}

// Subsequences enumerates structurally damaged vectors completely: every
// order-preserving subsequence of the v2.0 metric list (2^14, two value
// variants), and for v3.x / v4.0 every subset of the base metrics combined with
// a few optional tails. Only a handful of them are well-formed; the rest miss
// one or several metrics at every combination of positions.
func Subsequences() []string {
	var out []string
	vals := func(m spec.Metric, variant int) string {
		if variant == 0 {
			return m.Vals[0]
		}
		return m.Vals[len(m.Vals)-1]
	}
	v := spec.V2
	for mask := 0; mask < 1<<14; mask++ {
		for variant := 0; variant < 2; variant++ {
			var parts []string
			for i, m := range v.Metrics {
				if mask&(1<<i) != 0 {
					parts = append(parts, m.Abv+":"+vals(m, variant))
				}
			}
			out = append(out, strings.Join(parts, "/"))
		}
	}
	for _, v := range []*spec.Version{spec.V30, spec.V31, spec.V4} {
		base := v.Base()
		opt := v.Optional()
		tails := [][]spec.Metric{nil, opt, opt[:1], opt[len(opt)-1:]}
		for mask := 0; mask < 1<<len(base); mask++ {
			for _, tail := range tails {
				var parts []string
				for i, m := range base {
					if mask&(1<<i) != 0 {
						parts = append(parts, m.Abv+":"+vals(m, 1))
					}
				}
				for _, m := range tail {
					parts = append(parts, m.Abv+":"+vals(m, 1))
				}
				out = append(out, v.Header+strings.Join(parts, "/"))
			}
		}
	}
	return out
}
