package gen

import (
	"encoding/json"
	"strconv"
)

// BStr is a byte string that survives JSON exactly: it is written as a Go
// quoted ASCII literal (invalid UTF-8 and control bytes as \x.. escapes).
type BStr string

func (b BStr) MarshalJSON() ([]byte, error) {
	return json.Marshal(strconv.QuoteToASCII(string(b)))
}

func (b *BStr) UnmarshalJSON(data []byte) error {
	var q string
	if err := json.Unmarshal(data, &q); err != nil {
		return err
	}
	s, err := strconv.Unquote(q)
	if err != nil {
		return err
	}
	*b = BStr(s)
	return nil
}
